#![no_main]
use libfuzzer_sys::fuzz_target;
// bytes -> uncoupled instance -> MinCostFlowSolver vs R-MCF (C14)
fuzz_target!(|data: &[u8]| {
    rsv::fuzz_support::fuzz_one(&["C14"], data);
});
