#![no_main]
use libfuzzer_sys::fuzz_target;
// bytes -> instance tape -> real server::solve_instance in this process -> O-JSON + stage relations
fuzz_target!(|data: &[u8]| {
    rsv::fuzz_support::fuzz_pipeline(data);
});
