#![no_main]
use libfuzzer_sys::fuzz_target;
// bytes -> instance + walk tape -> all neighbourhood candidates validated (C11)
fuzz_target!(|data: &[u8]| {
    rsv::fuzz_support::fuzz_one(&["C11"], data);
});
