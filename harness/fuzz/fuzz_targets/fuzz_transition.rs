#![no_main]
use libfuzzer_sys::fuzz_target;
// bytes -> vehicles + transition operation tape vs R-CYCLES (C15)
fuzz_target!(|data: &[u8]| {
    rsv::fuzz_support::fuzz_one(&["C15"], data);
});
