#![no_main]
use libfuzzer_sys::fuzz_target;
// bytes -> small network -> all tours x paths x segments vs reference (C12)
fuzz_target!(|data: &[u8]| {
    rsv::fuzz_support::fuzz_one(&["C12"], data);
});
