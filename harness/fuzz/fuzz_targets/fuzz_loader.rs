#![no_main]
use libfuzzer_sys::fuzz_target;
// bytes -> instance tape -> real loader vs own reading (C17)
fuzz_target!(|data: &[u8]| {
    rsv::fuzz_support::fuzz_one(&["C17"], data);
});
