#![no_main]
use libfuzzer_sys::fuzz_target;
// bytes -> instance + operation tape -> history engine (C09, C10, C13)
fuzz_target!(|data: &[u8]| {
    rsv::fuzz_support::fuzz_one(&["C09", "C10", "C13"], data);
});
