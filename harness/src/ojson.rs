//! O-JSON: validator over (input instance, output JSON) only. It never touches a data structure of
//! the system under test; everything is re-derived from the input with the harness' own
//! arithmetic. Each finding is tagged with the property it decides.

use crate::inst::*;
use serde_json::Value;
use std::collections::{BTreeMap, BTreeSet, HashMap};

#[derive(Clone, Debug)]
pub struct Finding {
    pub prop: &'static str,
    pub msg: String,
}

fn fnd(out: &mut Vec<Finding>, prop: &'static str, msg: String) {
    out.push(Finding { prop, msg });
}

#[derive(Clone, Debug)]
pub struct OutVehicle {
    pub id: String,
    pub vtype: usize,
    pub start_depot: Option<usize>,
    pub end_depot: Option<usize>,
    pub acts: Vec<Act>, // sorted by (start, end)
    pub dead_heads: Vec<(String, String, Inst64, Inst64, String)>, // origin, destination, departure, arrival, id
}

#[derive(Clone, Debug, Default)]
pub struct Facts {
    pub vehicles: usize,
    pub pairs_checked: usize,
    pub pair_dead_head: usize,
    pub pair_tie: usize,
    pub pair_with_slot: usize,
    pub formation_ge2: usize,
    pub dead_head_trips: usize,
    pub limit_tight: bool,
    pub limit_demand_exceeds: bool,
    pub depot_tight: bool,
    pub cycle_multi_depot: bool,
    pub cycles_ge2: usize,
    pub uses_overflow: bool,
    pub objective: Option<[i64; 4]>,
    pub vehicles_visiting_slot: usize,
}

pub struct Parsed {
    pub vehicles: Vec<OutVehicle>,
    pub cycles: Vec<Vec<Vec<String>>>, // per type (input order): cycles of vehicle ids
}

fn s<'a>(v: &'a Value, k: &str) -> &'a str {
    v.get(k).and_then(|x| x.as_str()).unwrap_or("")
}
fn arr<'a>(v: &'a Value, k: &str) -> &'a [Value] {
    v.get(k).and_then(|x| x.as_array()).map(|x| x.as_slice()).unwrap_or(&[])
}

/// Parse the vehicle perspective. Structural problems are reported under C03.
pub fn parse_output(fl: &Flat, out: &Value, fs: &mut Vec<Finding>) -> Parsed {
    let sched = out.get("schedule").cloned().unwrap_or(Value::Null);
    let mut vehicles = Vec::new();
    let mut cycles = vec![Vec::new(); fl.inst.types.len()];
    let mut seen_types = BTreeSet::new();
    for fleet in arr(&sched, "fleet") {
        let tname = s(fleet, "vehicleType");
        let Some(&ti) = fl.type_by_id.get(tname) else {
            fnd(fs, "C03", format!("fleet of unknown vehicle type {:?}", tname));
            continue;
        };
        if !seen_types.insert(ti) {
            fnd(fs, "C03", format!("vehicle type {:?} has two fleets", tname));
        }
        for v in arr(fleet, "vehicles") {
            let id = s(v, "id").to_string();
            let mut acts = Vec::new();
            for d in arr(v, "departureSegments") {
                match fl.seg_by_id.get(s(d, "departureSegment")) {
                    Some(&i) => {
                        acts.push(Act::Seg(i));
                        check_seg_fields(fl, i, d, &format!("vehicle {}", id), fs);
                    }
                    None => fnd(fs, "C03", format!("vehicle {} lists unknown departure segment {:?}", id, s(d, "departureSegment"))),
                }
            }
            for d in arr(v, "maintenanceSlots") {
                match fl.slot_by_id.get(s(d, "maintenanceSlot")) {
                    Some(&i) => {
                        acts.push(Act::Slot(i));
                        check_slot_fields(fl, i, d, &format!("vehicle {}", id), fs);
                    }
                    None => fnd(fs, "C03", format!("vehicle {} lists unknown maintenance slot {:?}", id, s(d, "maintenanceSlot"))),
                }
            }
            acts.sort_by_key(|a| (fl.act_start(*a), fl.act_end(*a), *a));
            let mut dead_heads = Vec::new();
            for d in arr(v, "deadHeadTrips") {
                let dep = parse_out_time(s(d, "departure"));
                let arrv = parse_out_time(s(d, "arrival"));
                match (dep, arrv) {
                    (Some(a), Some(b)) => dead_heads.push((s(d, "origin").to_string(), s(d, "destination").to_string(), a, b, s(d, "id").to_string())),
                    _ => fnd(fs, "C03", format!("vehicle {}: dead-head trip with unparsable times {:?}", id, d)),
                }
            }
            vehicles.push(OutVehicle {
                id,
                vtype: ti,
                start_depot: fl.depot_by_id.get(s(v, "startDepot")).copied(),
                end_depot: fl.depot_by_id.get(s(v, "endDepot")).copied(),
                acts,
                dead_heads,
            });
        }
        cycles[ti] = arr(fleet, "vehicleCycles")
            .iter()
            .map(|c| c.as_array().map(|x| x.iter().map(|y| y.as_str().unwrap_or("").to_string()).collect()).unwrap_or_default())
            .collect();
    }
    for ti in 0..fl.inst.types.len() {
        if !seen_types.contains(&ti) {
            fnd(fs, "C03", format!("no fleet entry for vehicle type {}", fl.inst.types[ti].id));
        }
    }
    Parsed { vehicles, cycles }
}

fn check_seg_fields(fl: &Flat, i: usize, d: &Value, whom: &str, fs: &mut Vec<Finding>) {
    let sg = &fl.segs[i];
    if s(d, "origin") != fl.inst.locs[sg.origin] || s(d, "destination") != fl.inst.locs[sg.dest] {
        fnd(fs, "C03", format!("{}: segment {} listed with origin/destination {:?}->{:?}, input has {}->{}", whom, sg.id, s(d, "origin"), s(d, "destination"), fl.inst.locs[sg.origin], fl.inst.locs[sg.dest]));
    }
    if parse_out_time(s(d, "departure")) != Some(Inst64::At(sg.dep)) {
        fnd(fs, "C03", format!("{}: segment {} departure {:?} != input {}", whom, sg.id, s(d, "departure"), fmt_time(sg.dep)));
    }
    if parse_out_time(s(d, "arrival")) != Some(Inst64::At(sg.arr)) {
        fnd(fs, "C03", format!("{}: segment {} arrival {:?} != departure + duration {}", whom, sg.id, s(d, "arrival"), fmt_time(sg.arr)));
    }
}

fn check_slot_fields(fl: &Flat, i: usize, d: &Value, whom: &str, fs: &mut Vec<Finding>) {
    let sl = &fl.slots[i];
    if s(d, "location") != fl.inst.locs[sl.loc] {
        fnd(fs, "C03", format!("{}: slot {} listed at {:?}, input has {}", whom, sl.id, s(d, "location"), fl.inst.locs[sl.loc]));
    }
    if parse_out_time(s(d, "start")) != Some(Inst64::At(sl.start)) || parse_out_time(s(d, "end")) != Some(Inst64::At(sl.end)) {
        fnd(fs, "C03", format!("{}: slot {} listed {:?}..{:?}, input has {}..{}", whom, sl.id, s(d, "start"), s(d, "end"), fmt_time(sl.start), fmt_time(sl.end)));
    }
}

/// Run every sub-check. Returns findings (tagged) and coverage facts.
pub fn validate(fl: &Flat, out: &Value) -> (Vec<Finding>, Facts, Parsed) {
    let mut fs = Vec::new();
    let mut facts = Facts::default();
    for k in ["info", "objectiveValue", "schedule"] {
        if out.get(k).is_none() {
            fnd(&mut fs, "C03", format!("output lacks top-level key {:?}", k));
        }
    }
    let parsed = parse_output(fl, out, &mut fs);
    let sched = out.get("schedule").cloned().unwrap_or(Value::Null);
    facts.vehicles = parsed.vehicles.len();

    // ------------------------------------------------------------------ C01
    for v in &parsed.vehicles {
        if v.start_depot.is_none() {
            fnd(&mut fs, "C01", format!("vehicle {} starts at something that is no depot of the instance", v.id));
        }
        if v.end_depot.is_none() {
            fnd(&mut fs, "C01", format!("vehicle {} ends at something that is no depot of the instance", v.id));
        }
        if v.acts.is_empty() {
            fnd(&mut fs, "C01", format!("vehicle {} has no service trip or maintenance slot", v.id));
        }
        for a in &v.acts {
            if let Act::Seg(i) = a {
                if fl.segs[*i].vtype != v.vtype {
                    fnd(&mut fs, "C01", format!("vehicle {} of type {} serves segment {} whose route prescribes type {}", v.id, fl.inst.types[v.vtype].id, fl.segs[*i].id, fl.inst.types[fl.segs[*i].vtype].id));
                }
            }
        }
        for w in v.acts.windows(2) {
            facts.pairs_checked += 1;
            let cl = fl.pair_class(w[0], w[1]);
            if cl.contains("dead_head") {
                facts.pair_dead_head += 1;
            }
            if cl.starts_with("tie") {
                facts.pair_tie += 1;
            }
            if matches!(w[0], Act::Slot(_)) || matches!(w[1], Act::Slot(_)) {
                facts.pair_with_slot += 1;
            }
            if !fl.connectable(w[0], w[1]) {
                fnd(
                    &mut fs,
                    "C01",
                    format!(
                        "vehicle {}: {} (ends {} at {}) cannot be followed by {} (starts {} at {}): turnaround rule violated (shunting {}/{}, forbid {})",
                        v.id,
                        fl.act_id(w[0]),
                        fmt_time(fl.act_end(w[0])),
                        fl.inst.locs[fl.act_end_loc(w[0])],
                        fl.act_id(w[1]),
                        fmt_time(fl.act_start(w[1])),
                        fl.inst.locs[fl.act_start_loc(w[1])],
                        fl.inst.shunt_min,
                        fl.inst.shunt_dh,
                        fl.forbid
                    ),
                );
            }
        }
        if v.acts.iter().any(|a| matches!(a, Act::Slot(_))) {
            facts.vehicles_visiting_slot += 1;
        }
    }

    // ------------------------------------------------------------------ C03 (+ formation sizes for C02/C07)
    let mut by_vehicle_view: HashMap<Act, Vec<&str>> = HashMap::new();
    let mut ids_seen = BTreeSet::new();
    for v in &parsed.vehicles {
        if !ids_seen.insert(v.id.clone()) {
            fnd(&mut fs, "C03", format!("vehicle id {} appears twice in the fleet", v.id));
        }
        let mut own = BTreeSet::new();
        for a in &v.acts {
            if !own.insert(*a) {
                fnd(&mut fs, "C03", format!("vehicle {} lists {} twice", v.id, fl.act_id(*a)));
            }
            by_vehicle_view.entry(*a).or_default().push(&v.id);
        }
    }
    let mut formation_size: HashMap<Act, usize> = HashMap::new();
    {
        let mut seen = BTreeMap::new();
        for d in arr(&sched, "departureSegments") {
            let id = s(d, "departureSegment");
            match fl.seg_by_id.get(id) {
                None => fnd(&mut fs, "C03", format!("trip view lists unknown departure segment {:?}", id)),
                Some(&i) => {
                    *seen.entry(i).or_insert(0usize) += 1;
                    check_seg_fields(fl, i, d, "trip view", &mut fs);
                    if s(d, "vehicleType") != fl.inst.types[fl.segs[i].vtype].id {
                        fnd(&mut fs, "C03", format!("trip view: segment {} has vehicleType {:?}, route prescribes {}", id, s(d, "vehicleType"), fl.inst.types[fl.segs[i].vtype].id));
                    }
                    check_formation(fl, Act::Seg(i), d, &by_vehicle_view, &mut formation_size, &mut fs);
                }
            }
        }
        for i in 0..fl.segs.len() {
            let n = seen.get(&i).copied().unwrap_or(0);
            if n != 1 {
                fnd(&mut fs, "C03", format!("departure segment {} is listed {} times in the trip view (expected exactly once)", fl.segs[i].id, n));
            }
        }
        let mut seen = BTreeMap::new();
        for d in arr(&sched, "maintenanceSlots") {
            let id = s(d, "maintenanceSlot");
            match fl.slot_by_id.get(id) {
                None => fnd(&mut fs, "C03", format!("trip view lists unknown maintenance slot {:?}", id)),
                Some(&i) => {
                    *seen.entry(i).or_insert(0usize) += 1;
                    check_slot_fields(fl, i, d, "trip view", &mut fs);
                    check_formation(fl, Act::Slot(i), d, &by_vehicle_view, &mut formation_size, &mut fs);
                }
            }
        }
        for i in 0..fl.slots.len() {
            let n = seen.get(&i).copied().unwrap_or(0);
            if n != 1 {
                fnd(&mut fs, "C03", format!("maintenance slot {} is listed {} times in the trip view (expected exactly once)", fl.slots[i].id, n));
            }
        }
    }
    facts.formation_ge2 = by_vehicle_view.values().filter(|v| v.len() >= 2).count();

    // depot loads
    {
        let mut expect: BTreeMap<(String, String), u64> = BTreeMap::new();
        for v in &parsed.vehicles {
            if let Some(d) = v.start_depot {
                *expect.entry((fl.depots[d].id.clone(), fl.inst.types[v.vtype].id.clone())).or_insert(0) += 1;
            }
        }
        let mut got: BTreeMap<(String, String), u64> = BTreeMap::new();
        for d in arr(&sched, "depotLoads") {
            for l in arr(d, "load") {
                let c = l.get("spawnCount").and_then(|x| x.as_u64()).unwrap_or(0);
                if c == 0 {
                    fnd(&mut fs, "C03", format!("depotLoads lists a zero row for depot {:?}", s(d, "depot")));
                }
                *got.entry((s(d, "depot").to_string(), s(l, "vehicleType").to_string())).or_insert(0) += c;
            }
        }
        if expect != got {
            fnd(&mut fs, "C03", format!("depotLoads {:?} != vehicles per (start depot, type) {:?}", got, expect));
        }
    }

    // dead-head trips: exactly the location changes, each inside its gap
    {
        let mut all_expected: Vec<(String, String, String)> = Vec::new(); // (vehicle, origin, dest) in order
        for v in &parsed.vehicles {
            let (Some(sd), Some(ed)) = (v.start_depot, v.end_depot) else { continue };
            if v.acts.is_empty() {
                continue;
            }
            // (origin name, destination name, earliest departure, latest arrival)
            let mut expected: Vec<(String, String, Inst64, Inst64)> = Vec::new();
            let name = |l: Option<usize>| -> String {
                match l {
                    Some(i) => fl.inst.locs[i].clone(),
                    None => "NOWHERE".to_string(),
                }
            };
            let first = v.acts[0];
            if fl.depots[sd].loc != Some(fl.act_start_loc(first)) {
                expected.push((name(fl.depots[sd].loc), name(Some(fl.act_start_loc(first))), Inst64::Earliest, Inst64::At(fl.act_start(first))));
            }
            for w in v.acts.windows(2) {
                if fl.act_end_loc(w[0]) != fl.act_start_loc(w[1]) {
                    expected.push((name(Some(fl.act_end_loc(w[0]))), name(Some(fl.act_start_loc(w[1]))), Inst64::At(fl.act_end(w[0])), Inst64::At(fl.act_start(w[1]))));
                }
            }
            let last = *v.acts.last().unwrap();
            if fl.depots[ed].loc != Some(fl.act_end_loc(last)) {
                expected.push((name(Some(fl.act_end_loc(last))), name(fl.depots[ed].loc), Inst64::At(fl.act_end(last)), Inst64::Latest));
            }
            // Legs from / to the overflow depot (located nowhere) are no location change between two
            // places of the instance: whether and how they are listed is left to the implementation.
            let known = |n: &String| fl.loc_by_id.contains_key(n);
            let expected: Vec<(String, String, Inst64, Inst64)> = expected.into_iter().filter(|e| known(&e.0) && known(&e.1)).collect();
            let listed: Vec<&(String, String, Inst64, Inst64, String)> = v.dead_heads.iter().filter(|d| known(&d.0) && known(&d.1)).collect();
            facts.dead_head_trips += expected.len();
            let got: Vec<(String, String)> = listed.iter().map(|d| (d.0.clone(), d.1.clone())).collect();
            let exp: Vec<(String, String)> = expected.iter().map(|d| (d.0.clone(), d.1.clone())).collect();
            if got != exp {
                fnd(&mut fs, "C03", format!("vehicle {}: listed dead-head trips {:?} != its location changes {:?}", v.id, got, exp));
            } else {
                for (d, e) in listed.iter().zip(expected.iter()) {
                    if !(e.2 <= d.2 && d.2 <= d.3 && d.3 <= e.3) {
                        fnd(&mut fs, "C03", format!("vehicle {}: dead-head trip {}->{} scheduled {:?}..{:?} outside its gap {:?}..{:?}", v.id, d.0, d.1, d.2, d.3, e.2, e.3));
                    }
                }
            }
            for e in &exp {
                all_expected.push((v.id.clone(), e.0.clone(), e.1.clone()));
            }
        }
        // top-level list == concatenation of the per-vehicle lists (as a multiset of (vehicle, o, d))
        let mut top: Vec<(String, String, String)> = Vec::new();
        for d in arr(&sched, "deadHeadTrips") {
            let f = arr(d, "formation");
            if f.len() != 1 {
                fnd(&mut fs, "C03", format!("top-level dead-head trip {:?} has a formation of {} vehicles", s(d, "id"), f.len()));
            }
            if !(fl.loc_by_id.contains_key(s(d, "origin")) && fl.loc_by_id.contains_key(s(d, "destination"))) {
                continue; // overflow-depot leg
            }
            top.push((f.first().and_then(|x| x.as_str()).unwrap_or("").to_string(), s(d, "origin").to_string(), s(d, "destination").to_string()));
        }
        let mut a = all_expected.clone();
        a.sort();
        top.sort();
        if a != top {
            fnd(&mut fs, "C03", format!("top-level deadHeadTrips {:?} != concatenation of the vehicles' location changes {:?}", top, a));
        }
    }

    // ------------------------------------------------------------------ C02
    for (i, sg) in fl.segs.iter().enumerate() {
        let k = by_vehicle_view.get(&Act::Seg(i)).map(|v| v.len()).unwrap_or(0) as u64;
        let k2 = formation_size.get(&Act::Seg(i)).copied().unwrap_or(0) as u64;
        if let Some(l) = sg.lim {
            if k.max(k2) > l {
                fnd(&mut fs, "C02", format!("segment {} is served by {} vehicles, limit is {} (type limit {:?}, route-segment limit {:?})", sg.id, k.max(k2), l, fl.inst.types[sg.vtype].max_form, sg.seg_limit));
            }
            if k == l {
                facts.limit_tight = true;
            }
            if sg.need > l {
                facts.limit_demand_exceeds = true;
            }
        }
    }
    for (i, sl) in fl.slots.iter().enumerate() {
        let k = by_vehicle_view.get(&Act::Slot(i)).map(|v| v.len()).unwrap_or(0) as u64;
        let k2 = formation_size.get(&Act::Slot(i)).copied().unwrap_or(0) as u64;
        if k.max(k2) > sl.tracks {
            fnd(&mut fs, "C02", format!("maintenance slot {} hosts {} vehicles but has {} tracks", sl.id, k.max(k2), sl.tracks));
        }
        if k == sl.tracks {
            facts.limit_tight = true;
        }
    }
    {
        let mut per: BTreeMap<(usize, usize), u64> = BTreeMap::new();
        let mut tot: BTreeMap<usize, u64> = BTreeMap::new();
        for v in &parsed.vehicles {
            if let Some(d) = v.start_depot {
                *per.entry((d, v.vtype)).or_insert(0) += 1;
                *tot.entry(d).or_insert(0) += 1;
                if fl.depots[d].id == OVERFLOW {
                    facts.uses_overflow = true;
                }
            }
        }
        for (d, n) in &tot {
            if fl.depots[*d].id == OVERFLOW {
                continue;
            }
            if let Some(t) = fl.depots[*d].total {
                if *n > t {
                    fnd(&mut fs, "C02", format!("{} vehicles start at depot {} whose total capacity is {}", n, fl.depots[*d].id, t));
                }
                if *n == t {
                    facts.depot_tight = true;
                }
            }
        }
        for ((d, t), n) in &per {
            if fl.depots[*d].id == OVERFLOW {
                continue;
            }
            if let Some(c) = fl.depot_capacity_for(*d, *t) {
                if *n > c {
                    fnd(&mut fs, "C02", format!("{} vehicles of type {} start at depot {} whose capacity for that type is {}", n, fl.inst.types[*t].id, fl.depots[*d].id, c));
                }
                if *n == c {
                    facts.depot_tight = true;
                }
            }
        }
        if facts.uses_overflow {
            facts.depot_tight = true;
        }
    }

    // ------------------------------------------------------------------ C05
    let by_id: HashMap<&str, &OutVehicle> = parsed.vehicles.iter().map(|v| (v.id.as_str(), v)).collect();
    for (ti, cycles) in parsed.cycles.iter().enumerate() {
        let mut members: Vec<&str> = cycles.iter().flat_map(|c| c.iter().map(|x| x.as_str())).collect();
        members.sort();
        let mut fleet: Vec<&str> = parsed.vehicles.iter().filter(|v| v.vtype == ti).map(|v| v.id.as_str()).collect();
        fleet.sort();
        if members != fleet {
            fnd(&mut fs, "C05", format!("type {}: vehicle cycles {:?} do not partition the fleet {:?}", fl.inst.types[ti].id, cycles, fleet));
            continue;
        }
        for c in cycles {
            if c.len() >= 2 {
                facts.cycles_ge2 += 1;
            }
            let mut starts = BTreeSet::new();
            for (k, v) in c.iter().enumerate() {
                let next = &c[(k + 1) % c.len()];
                let (a, b) = (by_id[v.as_str()], by_id[next.as_str()]);
                if let Some(sd) = a.start_depot {
                    starts.insert(sd);
                }
                if a.end_depot != b.start_depot {
                    fnd(
                        &mut fs,
                        "C05",
                        format!(
                            "type {}: in cycle {:?} vehicle {} ends in depot {} but its successor {} starts in depot {}",
                            fl.inst.types[ti].id,
                            c,
                            v,
                            a.end_depot.map(|d| fl.depots[d].id.as_str()).unwrap_or("?"),
                            next,
                            b.start_depot.map(|d| fl.depots[d].id.as_str()).unwrap_or("?")
                        ),
                    );
                }
            }
            if c.len() >= 2 && starts.len() >= 2 {
                facts.cycle_multi_depot = true;
            }
        }
        // consequence: balance per (depot, type)
        let mut bal: BTreeMap<usize, i64> = BTreeMap::new();
        for v in parsed.vehicles.iter().filter(|v| v.vtype == ti) {
            if let (Some(a), Some(b)) = (v.start_depot, v.end_depot) {
                *bal.entry(a).or_insert(0) += 1;
                *bal.entry(b).or_insert(0) -= 1;
            }
        }
        for (d, b) in bal {
            if b != 0 {
                fnd(&mut fs, "C05", format!("type {}: depot {} has start-minus-end balance {}", fl.inst.types[ti].id, fl.depots[d].id, b));
            }
        }
    }

    // ------------------------------------------------------------------ C04
    let ov = out.get("objectiveValue").cloned().unwrap_or(Value::Null);
    let rep = |k: &str| ov.get(k).and_then(|x| x.as_i64());
    let reported = [rep("unservedPassengers"), rep("maintenanceViolation"), rep("vehicleCount"), rep("costs")];
    if reported.iter().any(|x| x.is_none()) {
        fnd(&mut fs, "C04", format!("objectiveValue lacks an integer component: {}", ov));
    } else {
        let reported: Vec<i64> = reported.iter().map(|x| x.unwrap()).collect();
        facts.objective = Some([reported[0], reported[1], reported[2], reported[3]]);
        // unserved
        let mut unserved = 0u64;
        for i in 0..fl.segs.len() {
            let k = by_vehicle_view.get(&Act::Seg(i)).map(|v| v.len()).unwrap_or(0) as u64;
            let (a, b) = fl.shortfall(i, k);
            unserved += a + b;
        }
        if reported[0] != unserved as i64 {
            fnd(&mut fs, "C04", format!("reported unservedPassengers {} != recomputed {}", reported[0], unserved));
        }
        if reported[2] != parsed.vehicles.len() as i64 {
            fnd(&mut fs, "C04", format!("reported vehicleCount {} != number of vehicles {}", reported[2], parsed.vehicles.len()));
        }
        let complete = parsed.vehicles.iter().all(|v| v.start_depot.is_some() && v.end_depot.is_some() && !v.acts.is_empty());
        if complete {
            let mut costs = fl.inst.costs.staff * fl.segs.len() as u64;
            for v in &parsed.vehicles {
                costs += fl.itinerary_costs(v.start_depot.unwrap(), &v.acts, v.end_depot.unwrap());
            }
            if reported[3] != costs as i64 {
                fnd(&mut fs, "C04", format!("reported costs {} != recomputed {}", reported[3], costs));
            }
            // maintenance violation of the reported cycles
            let mut violation = 0i64;
            let mut cycles_ok = true;
            for cycles in parsed.cycles.iter() {
                for c in cycles {
                    let mut counter = 0i64;
                    for (k, v) in c.iter().enumerate() {
                        let (Some(a), Some(b)) = (by_id.get(v.as_str()), by_id.get(c[(k + 1) % c.len()].as_str())) else {
                            cycles_ok = false;
                            continue;
                        };
                        counter += fl.itinerary_counter(a.start_depot.unwrap(), &a.acts, a.end_depot.unwrap());
                        counter += fl.depot_transfer(a.end_depot.unwrap(), b.start_depot.unwrap());
                    }
                    violation += counter.max(0);
                }
            }
            if cycles_ok && reported[1] != violation {
                fnd(&mut fs, "C04", format!("reported maintenanceViolation {} != recomputed {} over the reported cycles", reported[1], violation));
            }
        }
        // ---------------------------------------------------------------- C07
        let lb = fl.unserved_lower_bound();
        if reported[0] != lb as i64 || unserved != lb {
            fnd(&mut fs, "C07", format!("unserved passengers (reported {}, recomputed {}) != the instance's lower bound {}", reported[0], unserved, lb));
        }
    }
    for i in 0..fl.segs.len() {
        let k = by_vehicle_view.get(&Act::Seg(i)).map(|v| v.len()).unwrap_or(0) as u64;
        if k < fl.required(i) {
            fnd(&mut fs, "C07", format!("segment {} needs {} vehicles (limit {:?}) but is served by {}", fl.segs[i].id, fl.segs[i].need, fl.segs[i].lim, k));
        }
    }

    (fs, facts, parsed)
}

fn check_formation(fl: &Flat, a: Act, d: &Value, by_vehicle_view: &HashMap<Act, Vec<&str>>, sizes: &mut HashMap<Act, usize>, fs: &mut Vec<Finding>) {
    let listed: Vec<&str> = arr(d, "formation").iter().map(|x| x.as_str().unwrap_or("")).collect();
    sizes.insert(a, listed.len());
    let mut l = listed.clone();
    l.sort();
    let dup = l.windows(2).any(|w| w[0] == w[1]);
    if dup {
        fnd(fs, "C03", format!("formation of {} lists a vehicle twice: {:?}", fl.act_id(a), listed));
    }
    let mut e: Vec<&str> = by_vehicle_view.get(&a).cloned().unwrap_or_default();
    e.sort();
    if l != e {
        fnd(fs, "C03", format!("formation of {} is {:?} but the vehicles whose itinerary contains it are {:?}", fl.act_id(a), listed, e));
    }
}
