use rsv::*;
use runner::*;
use std::time::{Duration, Instant};

use rsv::fuzz_support::make_engine;

/// (cases, workers, watchdog seconds)
fn budget(prop: &str, tier: &str) -> (u32, u32, u64) {
    let thorough = tier == "thorough";
    match prop {
        "C16" => {
            if thorough {
                (40000, 14, 14400)
            } else {
                (2002, 14, 900)
            }
        }
        "C01" | "C02" | "C03" | "C04" | "C05" | "C07" => {
            if thorough {
                (30000, 14, 14400)
            } else {
                (2002, 14, 900)
            }
        }
        "C06" => {
            if thorough {
                (40000, 14, 14400)
            } else {
                (2002, 14, 900)
            }
        }
        "C09" | "C10" | "C13" => {
            if thorough {
                (400000, 14, 14400)
            } else {
                (120120, 14, 900)
            }
        }
        "C11" => {
            if thorough {
                (20000, 14, 14400)
            } else {
                (4004, 14, 900)
            }
        }
        "C15" => {
            if thorough {
                (500000, 14, 14400)
            } else {
                (30030, 14, 900)
            }
        }
        "C08" => {
            if thorough {
                (2400, 14, 14400)
            } else {
                (3010, 14, 900)
            }
        }
        "C18" => {
            if thorough {
                (1500, 8, 14400)
            } else {
                (128, 8, 900)
            }
        }
        "C14" => {
            if thorough {
                (200000, 14, 14400)
            } else {
                (20020, 14, 900)
            }
        }
        "C12" => {
            if thorough {
                (20000, 14, 14400)
            } else {
                (3003, 14, 900)
            }
        }
        "C17" => {
            if thorough {
                (300000, 14, 14400)
            } else {
                (20020, 14, 900)
            }
        }
        _ => (100, 4, 600),
    }
}

/// Run all shards of a completely enumerated sub-space in parallel worker processes.
fn run_exhaustive(prop: &str, shards: usize) -> (serde_json::Value, Option<serde_json::Value>) {
    let exe = std::env::current_exe().expect("exe");
    let started = Instant::now();
    let children: Vec<_> = (0..shards)
        .map(|i| std::process::Command::new(&exe).arg("exhaustive").arg(prop).arg(i.to_string()).arg(shards.to_string()).env("RAYON_NUM_THREADS", "1").stdout(std::process::Stdio::piped()).stderr(std::process::Stdio::null()).spawn().expect("spawn"))
        .collect();
    let mut total = serde_json::json!({});
    let mut failure = None;
    let mut complete = true;
    for c in children {
        let out = c.wait_with_output().expect("wait");
        let text = String::from_utf8_lossy(&out.stdout).to_string();
        let Some(line) = text.lines().rev().find(|l| l.starts_with("RESULT ")) else {
            complete = false;
            continue;
        };
        let v: serde_json::Value = serde_json::from_str(&line[7..]).unwrap_or(serde_json::Value::Null);
        if let Some(m) = v.as_object() {
            for (k, x) in m {
                if let Some(n) = x.as_u64() {
                    total[k] = serde_json::json!(total[k].as_u64().unwrap_or(0) + n);
                }
            }
        }
        if !v["failure"].is_null() {
            complete = false;
            if failure.is_none() {
                failure = Some(v["failure"].clone());
            }
        }
    }
    total["exhaustive"] = serde_json::json!(complete);
    total["wall_s"] = serde_json::json!(started.elapsed().as_secs_f64());
    total["bound"] = serde_json::json!(match prop {
        "C12" => "every network of the small family: 1-3 activities (trip with origin/destination in {L0,L1} or maintenance slot), start tick 0..5, duration 1-2 ticks, x shunting minimal {0,1 tick} x dead-head shunting {0,1 tick} x dead-head time {0,1,3 ticks} x dead-heads forbidden {no,yes}; for each network every chain as tour (real depot pair, overflow pair, dummy) x every chain as path (with/without leading/trailing depot) x every segment",
        _ => "28 base setups (first library-generated tapes with 3 or 4 vehicles, each with alternative depots); for each EVERY operation sequence over {update_vehicle, add_vehicle_to_own_cycle, remove_vehicle, add_vehicle_at_the_end, move_vehicle, replace_cycle(three_opt i<j<k), two neighbours updated/removed in a row through updated_tours} with every argument valid in the model, up to depth 5 (3 vehicles) / depth 4 (4 vehicles)",
    });
    (total, failure)
}

fn main() {
    let args: Vec<String> = std::env::args().collect();
    let cmd = args.get(1).map(|s| s.as_str()).unwrap_or("");
    let code = match cmd {
        "solve-one" => engine_pipeline::solve_one_main(),
        "solve-one-internal" => engine_pipeline::solve_one_internal_main(),
        "c15-opt" => engine_transition::c15_opt_main(args.get(2).map(|s| s.as_str()).unwrap_or("quick")),
        "worker" => {
            // worker <prop> <tier> <seed> <widx> <cases>
            sut::silence_stdout();
            sut::install_panic_hook();
            let prop = &args[2];
            let tier = &args[3];
            let seed: u64 = args[4].parse().unwrap();
            let widx: u64 = args[5].parse().unwrap();
            let cases: u32 = args[6].parse().unwrap();
            let engine = make_engine(prop, tier).expect("engine");
            let res = run_worker(engine.as_ref(), prop, seed, widx, cases);
            sut::outln(&format!("RESULT {}", res));
            0
        }
        "run" => {
            // run <prop> [--tier quick|thorough] [--seed N] [--cases N]
            let prop = args.get(2).expect("property id").clone();
            let mut tier = std::env::var("VERIF_TIER").unwrap_or_else(|_| "quick".to_string());
            let mut seed: u64 = std::env::var("VERIF_SEED").ok().and_then(|s| s.parse().ok()).unwrap_or(20241002);
            let mut cases_override: Option<u32> = None;
            let mut i = 3;
            while i < args.len() {
                match args[i].as_str() {
                    "--tier" => {
                        tier = args[i + 1].clone();
                        i += 1;
                    }
                    "--seed" => {
                        seed = args[i + 1].parse().expect("seed");
                        i += 1;
                    }
                    "--cases" => {
                        cases_override = Some(args[i + 1].parse().expect("cases"));
                        i += 1;
                    }
                    _ => {}
                }
                i += 1;
            }
            if tier != "quick" && tier != "thorough" {
                tier = "quick".to_string();
            }
            sut::silence_stdout();
            sut::install_panic_hook();
            let started = Instant::now();
            let Some(engine) = make_engine(&prop, &tier) else {
                sut::outln(&format!("unknown property {}", prop));
                std::process::exit(2);
            };
            let (cases, workers, wd) = budget(&prop, &tier);
            let cases = cases_override.unwrap_or(cases);
            let spec = RunSpec {
                tolerated_inconclusive_fraction: engine.tolerated_inconclusive_fraction(),
                prop: prop.clone(),
                tier: tier.clone(),
                seed,
                cases,
                workers: workers.min(cases.max(1)),
                watchdog: Duration::from_secs(wd),
                level_rule: engine.rule(),
                assumptions: engine.assumptions(),
                engine_name: engine.name().to_string(),
                extra: engine.extra_evidence(),
            };
            let mut regress = run_regressions(engine.as_ref(), &prop);
            let agg = run_parent(&spec, &[]);
            let mut spec = spec;
            if tier == "thorough" && (prop == "C12" || prop == "C15") {
                let (summary, failure) = run_exhaustive(&prop, 14);
                if !spec.extra.is_object() {
                    spec.extra = serde_json::json!({});
                }
                spec.extra["exhaustive_subspace"] = summary;
                if let Some(f) = failure {
                    let p = runner::verif_root().join("replay").join(&prop).join(format!("{}_exhaustive.json", prop));
                    runner::write_json(&p, &serde_json::json!({"property": prop, "engine": engine.name(), "tier": "thorough", "exhaustive_case": f["exhaustive_case"], "message": f["message"], "decoded_case": f["decoded_case"]}));
                    regress.violations.push((p, f["message"].as_str().unwrap_or("").to_string()));
                }
            }
            finish(&spec, &agg, &regress, started)
        }
        "case" => {
            // case <prop> <tier> <tape.json>: evaluate one tape and print everything (debugging aid)
            sut::silence_stdout();
            sut::install_panic_hook();
            let prop = &args[2];
            let engine = make_engine(prop, &args[3]).expect("engine");
            let s = std::fs::read_to_string(&args[4]).expect("read tape");
            let v: serde_json::Value = serde_json::from_str(&s).expect("parse");
            let t = if v.get("tape").is_some() { v["tape"].clone() } else { v };
            let tape = tape::Tape::from_json(&t).expect("tape");
            let o = engine.eval(&tape);
            for f in &o.findings {
                sut::outln(&format!("[{}] {}", f.prop, f.msg));
            }
            sut::outln(&format!("classes: {:?}", o.classes));
            sut::outln(&format!("nontrivial: {} excluded: {:?} inconclusive: {:?}", o.nontrivial, o.excluded, o.inconclusive));
            sut::outln(&serde_json::to_string_pretty(&o.sample).unwrap());
            0
        }
        "dbg" => {
            let s = std::fs::read_to_string(&args[2]).expect("read");
            let v: serde_json::Value = serde_json::from_str(&s).expect("parse");
            let net = model::json_serialisation::load_rolling_stock_problem_instance_from_json(v);
            let sch = solver::min_cost_flow_solver::MinCostFlowSolver::initialize(net.clone()).solve();
            let sch2 = sch.improve_depots(None);
            for (lab, sc) in [("mcf", &sch), ("improved", &sch2)] {
                for v in sc.vehicles_iter_all() {
                    let t = sc.tour_of(v).unwrap();
                    let names: Vec<String> = t.all_nodes_iter().map(|n| format!("{}@{}", net.node(n).id(), net.node(n).start_location())).collect();
                    eprintln!("{} {} {:?} dh {} costs {}", lab, v, names, t.dead_head_distance(), t.costs());
                }
            }
            for n in net.start_depot_nodes() {
                let d = net.get_depot_idx(n);
                let loc = net.node(n).start_location();
                eprintln!("{} depot {} id {} loc {} ({})", n, d, net.get_depot(d).id(), loc, net.locations().get_id(loc).unwrap());
                for m in net.all_service_nodes() {
                    eprintln!("   -> {} at {}: dist {} time {}", net.node(m).id(), net.locations().get_id(net.node(m).start_location()).unwrap(), net.dead_head_distance_between(n, m), net.dead_head_time_between(n, m));
                }
            }
            0
        }
        "exhaustive" => {
            // exhaustive <prop> <shard> <nshards>: one shard of a completely enumerated sub-space
            sut::silence_stdout();
            sut::install_panic_hook();
            let shard: usize = args[3].parse().unwrap();
            let n: usize = args[4].parse().unwrap();
            let v = match args[2].as_str() {
                "C12" => engine_tour::exhaustive_shard(shard, n),
                "C15" => engine_transition_exh::exhaustive_shard(shard, n),
                _ => serde_json::Value::Null,
            };
            sut::outln(&format!("RESULT {}", v));
            0
        }
        "gen-corpus" => {
            // gen-corpus <prop> <dir> <n> <seed>: n library-generated tapes as libFuzzer seed inputs
            use proptest::strategy::{Strategy, ValueTree};
            use proptest::test_runner::{Config, RngAlgorithm, TestRng, TestRunner};
            let prop = &args[2];
            let dir = std::path::PathBuf::from(&args[3]);
            let n: usize = args[4].parse().unwrap();
            let seed: u64 = args.get(5).and_then(|s| s.parse().ok()).unwrap_or(1);
            let engine = make_engine(prop, "quick").expect("engine");
            let specs = engine.specs();
            let strat = tape::tape_strategy(&specs);
            let mut runner = TestRunner::new_with_rng(Config::default(), TestRng::from_seed(RngAlgorithm::ChaCha, &tape::expand_seed(seed, prop, 999)));
            std::fs::create_dir_all(&dir).ok();
            for i in 0..n {
                let t = strat.new_tree(&mut runner).unwrap().current();
                std::fs::write(dir.join(format!("seed_{:03}", i)), t.to_bytes(&specs)).ok();
            }
            0
        }
        "giant-times" => {
            // giant-times <prop> <tier> <n> <seed>: wall time of the release solve for giant-formation cases
            use proptest::strategy::{Strategy, ValueTree};
            use proptest::test_runner::{Config, RngAlgorithm, TestRng, TestRunner};
            let prop = &args[2];
            let tier = &args[3];
            let n: usize = args[4].parse().unwrap();
            let seed: u64 = args.get(5).and_then(|s| s.parse().ok()).unwrap_or(1);
            let engine = engine_pipeline::PipelineEngine::new(prop, tier);
            let specs = runner::Engine::specs(&engine);
            let strat = tape::tape_strategy(&specs);
            let mut runner = TestRunner::new_with_rng(Config::default(), TestRng::from_seed(RngAlgorithm::ChaCha, &tape::expand_seed(seed, prop, 999)));
            let mut done = 0;
            while done < n {
                let t = strat.new_tree(&mut runner).unwrap().current();
                let inst = gen_inst::decode_inst(&t, &engine.cfg, "");
                let fl = match inst::Flat::new(&inst) { Ok(f) => f, Err(_) => continue };
                if !fl.segs.iter().any(|s| s.need > 100) {
                    continue;
                }
                done += 1;
                let input = inst.to_json().to_string();
                let t0 = std::time::Instant::now();
                let r = engine_pipeline::run_child("release", &["solve-one"], &input, std::time::Duration::from_secs(120), &[("RSV_SNAPSHOTS", "0")]);
                let secs = t0.elapsed().as_secs_f64();
                let st = match r { engine_pipeline::ChildResult::Answer { .. } => "answer", engine_pipeline::ChildResult::Timeout => "TIMEOUT", engine_pipeline::ChildResult::Panic { .. } => "panic", _ => "broken" };
                println!("{:7.2}s {} segs={} slots={} fleet_need={} maxdist={:?} depots={} types={}", secs, st, fl.segs.len(), fl.slots.len(), fl.segs.iter().map(|s| s.lim.map(|l| l.min(s.need)).unwrap_or(s.need)).sum::<u64>(), inst.max_distance, inst.depots.as_ref().map(|d| d.len() as i64).unwrap_or(-1), inst.types.len());
            }
            0
        }
        "fuzz-note" => {
            // fuzz-note <prop> <json>: merge the libFuzzer campaign facts into the evidence file
            let prop = &args[2];
            let p = runner::verif_root().join("evidence").join(format!("{}.json", prop));
            if let Ok(s) = std::fs::read_to_string(&p) {
                if let Ok(mut v) = serde_json::from_str::<serde_json::Value>(&s) {
                    v["coverage"]["libfuzzer"] = serde_json::from_str(&args[3]).unwrap_or(serde_json::Value::Null);
                    runner::write_json(&p, &v);
                }
            }
            0
        }
        "fuzz-artifact" => {
            // fuzz-artifact <prop> <artifact file> <out.json>: libFuzzer input -> replay file
            let prop = &args[2];
            let data = std::fs::read(&args[3]).expect("artifact");
            let engine = make_engine(prop, "quick").expect("engine");
            let tape = tape::Tape::from_bytes(&engine.specs(), &data);
            let v = serde_json::json!({"property": prop, "engine": engine.name(), "tier": "quick", "seed": 0, "tape": tape.to_json(), "message": "found by libFuzzer", "source": args[3]});
            runner::write_json(std::path::Path::new(&args[4]), &v);
            0
        }
        "replay" => {
            // replay <prop> <file>
            sut::silence_stdout();
            sut::install_panic_hook();
            let prop = &args[2];
            let path = std::path::PathBuf::from(&args[3]);
            let s = std::fs::read_to_string(&path).expect("read replay file");
            let v: serde_json::Value = serde_json::from_str(&s).expect("parse");
            let tier = v["tier"].as_str().unwrap_or("quick").to_string();
            if !v["exhaustive_case"].is_null() {
                let msgs: Vec<String> = match prop.as_str() {
                    "C12" => engine_tour::exhaustive_case_from_json(&v["exhaustive_case"]).map(|inst| engine_tour::TourEngine::new("thorough").eval_inst(&inst, 0).findings.into_iter().filter(|f| f.prop == "C12").map(|f| f.msg).collect()).unwrap_or_default(),
                    "C15" => engine_transition_exh::replay_exhaustive_case(&v["exhaustive_case"]),
                    _ => Vec::new(),
                };
                sut::outln(&format!("reproduced {}/1", usize::from(!msgs.is_empty())));
                if let Some(m) = msgs.first() {
                    sut::outln(&format!("VIOLATION property={} replay={}", prop, path.display()));
                    sut::outln(&format!("  {}", m));
                    std::process::exit(1);
                }
                std::process::exit(0);
            }
            let engine = make_engine(prop, &tier).expect("engine");
            replay(engine.as_ref(), prop, &path, 5)
        }
        _ => {
            eprintln!("usage: rsv run <ID> [--tier quick|thorough] [--seed N] | rsv replay <ID> <file>");
            2
        }
    };
    std::process::exit(code);
}
