//! Structured choice tapes.
//!
//! A tape is a list of sections; a section is a list of fixed-width records of `u32`.
//! Every generated object of the harness is a pure function `decode(tape)`. The tape itself is
//! drawn by proptest (or decoded from libFuzzer bytes), so every random choice is the library's,
//! shrinking is structural (drop a record = drop one entity, shrink a field towards 0 = the
//! simplest choice) and a tape serialises trivially into a replay file.

use proptest::collection::vec;
use proptest::prelude::*;
use proptest::strategy::BoxedStrategy;
use serde_json::{json, Value};

#[derive(Clone, Debug, PartialEq, Eq)]
pub struct Tape {
    pub secs: Vec<Vec<Vec<u32>>>,
}

/// Layout of one section: record width and the range of record counts.
#[derive(Clone, Copy, Debug)]
pub struct SecSpec {
    pub width: usize,
    pub min: usize,
    pub max: usize,
}

pub const fn sec(width: usize, min: usize, max: usize) -> SecSpec {
    SecSpec { width, min, max }
}

pub fn tape_strategy(specs: &[SecSpec]) -> BoxedStrategy<Tape> {
    let mut strat: BoxedStrategy<Vec<Vec<Vec<u32>>>> = Just(Vec::new()).boxed();
    for s in specs.iter().copied() {
        let section = vec(vec(any::<u32>(), s.width..=s.width), s.min..=s.max);
        strat = (strat, section)
            .prop_map(|(mut acc, sec)| {
                acc.push(sec);
                acc
            })
            .boxed();
    }
    strat.prop_map(|secs| Tape { secs }).boxed()
}

impl Tape {
    pub fn to_json(&self) -> Value {
        json!(self.secs)
    }

    pub fn from_json(v: &Value) -> Option<Tape> {
        let mut secs = Vec::new();
        for s in v.as_array()? {
            let mut sec = Vec::new();
            for r in s.as_array()? {
                let mut rec = Vec::new();
                for f in r.as_array()? {
                    rec.push(f.as_u64()? as u32);
                }
                sec.push(rec);
            }
            secs.push(sec);
        }
        Some(Tape { secs })
    }

    /// Decode a byte string (libFuzzer input) into a tape with the given layout. Total: every byte
    /// string yields a tape; bytes are consumed in order, missing bytes read as 0.
    pub fn from_bytes(specs: &[SecSpec], data: &[u8]) -> Tape {
        let mut pos = 0usize;
        let mut next = |n: usize| -> u32 {
            let mut v: u32 = 0;
            for _ in 0..n {
                let b = if pos < data.len() { data[pos] } else { 0 };
                pos += 1;
                v = (v << 8) | b as u32;
            }
            v
        };
        let mut secs = Vec::new();
        for s in specs {
            let span = (s.max - s.min + 1) as u32;
            let cnt = s.min + (next(1) % span) as usize;
            let mut sec = Vec::new();
            for _ in 0..cnt {
                let mut rec = Vec::new();
                for _ in 0..s.width {
                    // two bytes per field, spread over the u32 range so that `pick` sees the
                    // whole range
                    let v = next(2);
                    rec.push(v << 16 | v);
                }
                sec.push(rec);
            }
            secs.push(sec);
        }
        Tape { secs }
    }

    /// Inverse of `from_bytes` up to the 16 bits a fuzz input carries per field (used to seed a
    /// libFuzzer corpus with library-generated tapes).
    pub fn to_bytes(&self, specs: &[SecSpec]) -> Vec<u8> {
        let mut out = Vec::new();
        for (i, s) in specs.iter().enumerate() {
            let sec = self.sec(i);
            let cnt = sec.len().clamp(s.min, s.max);
            out.push((cnt - s.min) as u8);
            for r in sec.iter().take(cnt) {
                for k in 0..s.width {
                    let v = f(r, k) >> 16;
                    out.push((v >> 8) as u8);
                    out.push((v & 0xff) as u8);
                }
            }
        }
        out
    }

    pub fn sec(&self, i: usize) -> &[Vec<u32>] {
        self.secs.get(i).map(|v| v.as_slice()).unwrap_or(&[])
    }

    pub fn digest(&self) -> u64 {
        let mut h = Fnv::new();
        for s in &self.secs {
            h.u32(0xffff_fffe);
            for r in s {
                h.u32(0xffff_ffff);
                for f in r {
                    h.u32(*f);
                }
            }
        }
        h.finish()
    }
}

/// Field of a record (0 when the record is shorter).
pub fn f(rec: &[u32], i: usize) -> u32 {
    rec.get(i).copied().unwrap_or(0)
}

/// Monotone map of a u32 onto 0..n (0 ↦ 0), never `%`.
pub fn pick(v: u32, n: usize) -> usize {
    if n == 0 {
        return 0;
    }
    ((v as u64 * n as u64) >> 32) as usize
}

/// Monotone weighted choice: index i with probability w[i]/sum(w); 0 ↦ first index with w>0.
pub fn pick_w(v: u32, w: &[u32]) -> usize {
    let total: u64 = w.iter().map(|x| *x as u64).sum();
    if total == 0 {
        return 0;
    }
    let x = (v as u64 * total) >> 32;
    let mut acc = 0u64;
    for (i, wi) in w.iter().enumerate() {
        acc += *wi as u64;
        if x < acc {
            return i;
        }
    }
    w.len() - 1
}

/// Pick from a slice.
pub fn choose<T: Copy>(v: u32, xs: &[T]) -> T {
    xs[pick(v, xs.len())]
}

pub struct Fnv(u64);
impl Fnv {
    pub fn new() -> Fnv {
        Fnv(0xcbf29ce484222325)
    }
    pub fn byte(&mut self, b: u8) {
        self.0 ^= b as u64;
        self.0 = self.0.wrapping_mul(0x100000001b3);
    }
    pub fn u32(&mut self, v: u32) {
        for b in v.to_le_bytes() {
            self.byte(b);
        }
    }
    pub fn u64(&mut self, v: u64) {
        for b in v.to_le_bytes() {
            self.byte(b);
        }
    }
    pub fn str(&mut self, s: &str) {
        for b in s.as_bytes() {
            self.byte(*b);
        }
        self.byte(0xff);
    }
    pub fn finish(&self) -> u64 {
        self.0
    }
}

pub fn digest_str(s: &str) -> u64 {
    let mut h = Fnv::new();
    h.str(s);
    h.finish()
}

/// SplitMix64, used only to expand (seed, property, worker) into the 32-byte ChaCha seed of the
/// library's RNG. No test decision is ever drawn from it directly.
pub fn expand_seed(seed: u64, prop: &str, worker: u64) -> [u8; 32] {
    let mut x = seed ^ digest_str(prop).rotate_left(17) ^ worker.wrapping_mul(0x9E3779B97F4A7C15);
    let mut out = [0u8; 32];
    for chunk in out.chunks_mut(8) {
        x = x.wrapping_add(0x9E3779B97F4A7C15);
        let mut z = x;
        z = (z ^ (z >> 30)).wrapping_mul(0xBF58476D1CE4E5B9);
        z = (z ^ (z >> 27)).wrapping_mul(0x94D049BB133111EB);
        z ^= z >> 31;
        chunk.copy_from_slice(&z.to_le_bytes());
    }
    out
}
