//! Glue between the harness' own view of an instance (`Flat`) and the loaded `Network` of the
//! system under test: id-based maps between NodeIdx / DepotIdx / VehicleTypeIdx and the harness'
//! indices. Only public getters are used.

use crate::inst::*;
use model::base_types::{DepotIdx, NodeIdx, VehicleIdx, VehicleTypeIdx};
use model::network::Network;
use serde_json::{json, Value};
use solution::Schedule;
use std::collections::HashMap;
use std::sync::atomic::{AtomicBool, Ordering};
use std::sync::{Arc, Mutex};

pub struct Ctx {
    pub flat: Flat,
    pub net: Arc<Network>,
    pub node_act: HashMap<NodeIdx, Act>,
    pub act_node: HashMap<Act, NodeIdx>,
    /// depot node -> (flat depot index, is start node)
    pub node_depot: HashMap<NodeIdx, (usize, bool)>,
    /// flat depot index -> (DepotIdx, start node, end node)
    pub depots: Vec<(DepotIdx, NodeIdx, NodeIdx)>,
    pub types: Vec<VehicleTypeIdx>, // flat type index -> VehicleTypeIdx
    pub type_of: HashMap<VehicleTypeIdx, usize>,
}

impl Ctx {
    /// Load the instance with the real loader and build the id maps. Err if the maps cannot be
    /// built (which itself is a loader problem reported by the caller).
    pub fn load(input: &Value) -> Result<Ctx, String> {
        let inst = Inst::from_json(input)?;
        let flat = Flat::new(&inst)?;
        let net = model::json_serialisation::load_rolling_stock_problem_instance_from_json(input.clone());
        Ctx::from_parts(flat, net)
    }

    pub fn from_parts(flat: Flat, net: Arc<Network>) -> Result<Ctx, String> {
        let mut types = Vec::new();
        let mut type_of = HashMap::new();
        for (i, t) in flat.inst.types.iter().enumerate() {
            let found = net.vehicle_types().iter().find(|vt| net.vehicle_types().get(*vt).map(|x| x.id() == &t.id).unwrap_or(false));
            let vt = found.ok_or_else(|| format!("vehicle type {} missing in network", t.id))?;
            types.push(vt);
            type_of.insert(vt, i);
        }
        let mut node_act = HashMap::new();
        let mut act_node = HashMap::new();
        let mut node_depot = HashMap::new();
        let mut depots: Vec<Option<(DepotIdx, NodeIdx, NodeIdx)>> = vec![None; flat.depots.len()];
        for n in net.all_nodes() {
            let node = net.node(n);
            if node.is_depot() {
                let didx = net.get_depot_idx(n);
                let did = net.get_depot(didx).id().to_string();
                let fi = *flat.depot_by_id.get(&did).ok_or_else(|| format!("network has depot {:?} the instance does not define", did))?;
                node_depot.insert(n, (fi, node.is_start_depot()));
                depots[fi] = Some((didx, net.get_start_depot_node(didx), net.get_end_depot_node(didx)));
            } else if node.is_service() {
                let i = *flat.seg_by_id.get(node.id()).ok_or_else(|| format!("network has service node {:?} the instance does not define", node.id()))?;
                node_act.insert(n, Act::Seg(i));
                act_node.insert(Act::Seg(i), n);
            } else {
                let i = *flat.slot_by_id.get(node.id()).ok_or_else(|| format!("network has maintenance node {:?} the instance does not define", node.id()))?;
                node_act.insert(n, Act::Slot(i));
                act_node.insert(Act::Slot(i), n);
            }
        }
        let depots: Vec<(DepotIdx, NodeIdx, NodeIdx)> = depots
            .into_iter()
            .enumerate()
            .map(|(i, d)| d.ok_or_else(|| format!("depot {} missing in network", flat.depots[i].id)))
            .collect::<Result<_, _>>()?;
        Ok(Ctx { flat, net, node_act, act_node, node_depot, depots, types, type_of })
    }

    pub fn node_name(&self, n: NodeIdx) -> String {
        if let Some(a) = self.node_act.get(&n) {
            self.flat.act_id(*a).to_string()
        } else if let Some((d, start)) = self.node_depot.get(&n) {
            format!("{}:{}", if *start { "S" } else { "E" }, self.flat.depots[*d].id)
        } else {
            format!("{}", n)
        }
    }

    pub fn tour_names(&self, s: &Schedule, v: VehicleIdx) -> Vec<String> {
        s.tour_of(v).map(|t| t.all_nodes_iter().map(|n| self.node_name(n)).collect()).unwrap_or_default()
    }

    /// (unserved total, maintenance violation, vehicles, costs)
    pub fn tuple(&self, s: &Schedule) -> [i64; 4] {
        let u = s.unserved_passengers();
        [(u.0 + u.1) as i64, s.maintenance_violation(), s.number_of_vehicles() as i64, s.costs() as i64]
    }

    /// A JSON digest of a schedule through public getters (used for snapshots / samples / diffs).
    pub fn digest(&self, s: &Schedule) -> Value {
        let mut vehicles = Vec::new();
        for (ti, vt) in self.types.iter().enumerate() {
            for v in s.vehicles_iter(*vt) {
                vehicles.push(json!({"id": v.to_string(), "type": ti, "nodes": self.tour_names(s, v)}));
            }
        }
        let dummies: Vec<Value> = s.dummy_iter().map(|d| json!({"id": d.to_string(), "nodes": self.tour_names(s, d)})).collect();
        let mut cycles = Vec::new();
        let mut trans = Vec::new();
        for vt in self.types.iter() {
            let t = s.next_day_transition_of(*vt);
            cycles.push(t.cycles_iter().map(|c| c.iter().map(|v| v.to_string()).collect::<Vec<_>>()).collect::<Vec<_>>());
            trans.push(json!([t.maintenance_violation(), t.maintenance_counter()]));
        }
        json!({"vehicles": vehicles, "dummies": dummies, "cycles": cycles, "transition_totals": trans, "tuple": self.tuple(s)})
    }
}

// ---------------------------------------------------------------------------------------------
// process-level helpers: silence the SUT's stdout, capture panics
// ---------------------------------------------------------------------------------------------

static SAVED_STDOUT: Mutex<Option<i32>> = Mutex::new(None);

/// Redirect fd 1 to /dev/null (the SUT prints a lot) and keep the real stdout for the harness.
pub fn silence_stdout() {
    let mut g = SAVED_STDOUT.lock().unwrap();
    if g.is_some() {
        return;
    }
    unsafe {
        let saved = libc::dup(1);
        let devnull = libc::open(b"/dev/null\0".as_ptr() as *const libc::c_char, libc::O_WRONLY);
        if devnull >= 0 {
            libc::dup2(devnull, 1);
            libc::close(devnull);
        }
        *g = Some(saved);
    }
}

/// Write to the real stdout (works whether or not `silence_stdout` was called).
pub fn out(s: &str) {
    let fd = SAVED_STDOUT.lock().unwrap().unwrap_or(1);
    let bytes = s.as_bytes();
    let mut off = 0;
    while off < bytes.len() {
        let n = unsafe { libc::write(fd, bytes[off..].as_ptr() as *const libc::c_void, bytes.len() - off) };
        if n <= 0 {
            break;
        }
        off += n as usize;
    }
}

pub fn outln(s: &str) {
    out(&format!("{}\n", s));
}

static LAST_PANIC: Mutex<Option<(String, String)>> = Mutex::new(None);
static HOOK_INSTALLED: AtomicBool = AtomicBool::new(false);

/// Install a panic hook that stores (message, location) instead of printing.
pub fn install_panic_hook() {
    if HOOK_INSTALLED.swap(true, Ordering::SeqCst) {
        return;
    }
    std::panic::set_hook(Box::new(|info| {
        let msg = if let Some(s) = info.payload().downcast_ref::<&str>() {
            s.to_string()
        } else if let Some(s) = info.payload().downcast_ref::<String>() {
            s.clone()
        } else {
            "panic".to_string()
        };
        let loc = info.location().map(|l| format!("{}:{}", l.file(), l.line())).unwrap_or_default();
        let mut g = LAST_PANIC.lock().unwrap_or_else(|e| e.into_inner());
        // keep the first panic of a case (later ones are usually consequences)
        if g.is_none() {
            *g = Some((msg, loc));
        }
    }));
}

#[derive(Clone, Debug)]
pub struct PanicInfo {
    pub msg: String,
    pub loc: String,
}

impl PanicInfo {
    /// file name (without line) + message head: the signature findings are keyed on
    pub fn file(&self) -> String {
        let f = self.loc.rsplit_once(':').map(|x| x.0).unwrap_or(&self.loc);
        // strip registry / repo prefixes
        match f.find("/src/") {
            Some(_) => {
                let parts: Vec<&str> = f.split('/').collect();
                let n = parts.len();
                parts[n.saturating_sub(3)..].join("/")
            }
            None => f.to_string(),
        }
    }
}

/// Run `f`, turning a panic into `Err(PanicInfo)`.
pub fn catch<T>(f: impl FnOnce() -> T) -> Result<T, PanicInfo> {
    install_panic_hook();
    {
        let mut g = LAST_PANIC.lock().unwrap_or_else(|e| e.into_inner());
        *g = None;
    }
    match std::panic::catch_unwind(std::panic::AssertUnwindSafe(f)) {
        Ok(v) => Ok(v),
        Err(_) => {
            let g = LAST_PANIC.lock().unwrap_or_else(|e| e.into_inner()).take();
            let (msg, loc) = g.unwrap_or(("panic".to_string(), String::new()));
            Err(PanicInfo { msg, loc })
        }
    }
}
