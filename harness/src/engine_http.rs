//! http engine (C18): request scripts against the real `server` binary (built from /repo).

use crate::gen_inst::*;
use crate::inst::*;
use crate::ojson::{self, Finding};
use crate::runner::{CaseOutcome, Engine};
use crate::tape::*;
use serde_json::{json, Value};
use std::io::{Read, Write};
use std::net::{TcpListener, TcpStream};
use std::process::{Child, Command, Stdio};
use std::sync::{Arc, Barrier};
use std::time::{Duration, Instant};

const REQ_W: usize = 112;

pub struct HttpEngine {
    pub max_requests: usize,
    pub max_in_flight: usize,
    pub cfg: GenCfg,
}

impl HttpEngine {
    pub fn new(tier: &str) -> HttpEngine {
        let thorough = tier == "thorough";
        let mut cfg = GenCfg::quick();
        cfg.max_departures = 3;
        cfg.max_slots = 1;
        cfg.max_total_need = 8;
        cfg.max_need = 3;
        HttpEngine { max_requests: if thorough { 24 } else { 12 }, max_in_flight: if thorough { 16 } else { 6 }, cfg }
    }
}

fn server_bin() -> std::path::PathBuf {
    if let Ok(p) = std::env::var("RSV_SERVER_BIN") {
        return p.into();
    }
    crate::runner::verif_root().join("harness/target-repo/release/server")
}

struct Server {
    child: Child,
    port: u16,
}

impl Drop for Server {
    fn drop(&mut self) {
        let _ = self.child.kill();
        let _ = self.child.wait();
    }
}

fn free_port() -> u16 {
    TcpListener::bind("127.0.0.1:0").map(|l| l.local_addr().unwrap().port()).unwrap_or(38080)
}

fn start_server() -> Result<Server, String> {
    for _attempt in 0..5 {
        let port = free_port();
        let child = Command::new(server_bin())
            .arg(port.to_string())
            .env("RAYON_NUM_THREADS", "2")
            .stdin(Stdio::null())
            .stdout(Stdio::null())
            .stderr(Stdio::null())
            .spawn()
            .map_err(|e| format!("cannot start {}: {}", server_bin().display(), e))?;
        let mut srv = Server { child, port };
        let start = Instant::now();
        while start.elapsed() < Duration::from_secs(10) {
            if let Ok(Some(_)) = srv.child.try_wait() {
                break; // died (port taken?) -> retry with another port
            }
            if let Ok(r) = http(port, "GET", "/health", None, None, Duration::from_secs(2)) {
                if r.status == 200 {
                    return Ok(srv);
                }
            }
            std::thread::sleep(Duration::from_millis(20));
        }
    }
    Err("server did not become healthy".into())
}

#[derive(Debug, Clone)]
pub struct Resp {
    pub status: u16,
    pub body: String,
}

/// One HTTP/1.1 request on its own connection. Err = connection refused / closed without a
/// response / timeout.
pub fn http(port: u16, method: &str, path: &str, content_type: Option<&str>, body: Option<&str>, timeout: Duration) -> Result<Resp, String> {
    let mut s = TcpStream::connect(("127.0.0.1", port)).map_err(|e| format!("connect: {}", e))?;
    s.set_read_timeout(Some(timeout)).ok();
    s.set_write_timeout(Some(timeout)).ok();
    let mut req = format!("{} {} HTTP/1.1\r\nHost: localhost\r\nConnection: close\r\n", method, path);
    if let Some(ct) = content_type {
        req.push_str(&format!("Content-Type: {}\r\n", ct));
    }
    if let Some(b) = body {
        req.push_str(&format!("Content-Length: {}\r\n", b.len()));
    }
    req.push_str("\r\n");
    s.write_all(req.as_bytes()).map_err(|e| format!("write: {}", e))?;
    if let Some(b) = body {
        // the server may answer (and close) before the whole body is written: ignore write errors
        let _ = s.write_all(b.as_bytes());
    }
    let mut buf = Vec::new();
    let r = s.read_to_end(&mut buf);
    if buf.is_empty() {
        return match r {
            Err(e) if e.kind() == std::io::ErrorKind::WouldBlock || e.kind() == std::io::ErrorKind::TimedOut => Err(format!("timed out after {:?}", timeout)),
            other => Err(format!("connection closed without a response ({:?})", other.err())),
        };
    }
    let text = String::from_utf8_lossy(&buf).to_string();
    let (head, rest) = text.split_once("\r\n\r\n").ok_or("no header end")?;
    let status: u16 = head.split_whitespace().nth(1).and_then(|x| x.parse().ok()).ok_or("no status")?;
    let body = if head.to_ascii_lowercase().contains("transfer-encoding: chunked") {
        let mut out = String::new();
        let mut rem = rest;
        loop {
            let Some((len, after)) = rem.split_once("\r\n") else { break };
            let n = usize::from_str_radix(len.trim(), 16).unwrap_or(0);
            if n == 0 || after.len() < n {
                break;
            }
            out.push_str(&after[..n]);
            rem = after[n..].trim_start_matches("\r\n");
        }
        out
    } else {
        rest.to_string()
    };
    Ok(Resp { status, body })
}

#[derive(Clone, Debug)]
enum Req {
    Health,
    Valid { input: Value, inst: Inst },
    Malformed { body: String, ctype: Option<String>, what: &'static str },
    Invalid { body: String, what: &'static str },
}

fn mini_tape(rec: &[u32]) -> Tape {
    let at = |a: usize, n: usize| -> Vec<u32> { (a..a + n).map(|i| f(rec, i)).collect() };
    Tape {
        secs: vec![
            vec![at(4, 20)],
            vec![at(24, 4)],
            vec![at(28, 10), at(38, 10)],
            vec![],
            vec![at(48, 15)],
            (0..(1 + pick(f(rec, 3), 3))).map(|k| at(63 + 12 * k, 12)).collect(),
            if pick(f(rec, 2), 2) == 1 { vec![at(100, 4)] } else { vec![] },
        ],
    }
}

impl HttpEngine {
    fn decode(&self, i: usize, rec: &[u32]) -> Req {
        match pick_w(f(rec, 0), &[5, 2, 2, 2]) {
            1 => Req::Health,
            2 => {
                let inst = decode_inst(&mini_tape(rec), &self.cfg, &format!("q{}_", i));
                let full = inst.to_json().to_string();
                match pick(f(rec, 1), 5) {
                    0 => Req::Malformed { body: full[..full.len() / 2].to_string(), ctype: Some("application/json".into()), what: "truncated JSON" },
                    1 => Req::Malformed { body: full, ctype: Some("text/plain".into()), what: "wrong content type" },
                    2 => Req::Malformed { body: full, ctype: None, what: "no content type" },
                    3 => Req::Malformed { body: "{\"vehicleTypes\": [}".into(), ctype: Some("application/json".into()), what: "syntax error" },
                    _ => Req::Malformed { body: String::new(), ctype: Some("application/json".into()), what: "empty body" },
                }
            }
            3 => {
                let inst = decode_inst(&mini_tape(rec), &self.cfg, &format!("q{}_", i));
                let mut v = inst.to_json();
                // kinds 0-5 fail while the body is loaded, kinds 6-8 pass the loader and fail in the
                // solver phase (weighted higher: a failure *after* a request took resources is the
                // more dangerous one)
                let kind = pick_w(f(rec, 1), &[1, 1, 1, 1, 1, 1, 3, 3, 3]);
                let kind = if kind == 6 && !(inst.depots.is_none() && inst.locs.len() >= 2) { 8 } else { kind };
                let what = match kind {
                    6 => {
                        // default depots at every location: the solver needs the dead-head row of
                        // every location, the last one is missing
                        v["deadHeadTrips"]["indices"].as_array_mut().unwrap().pop();
                        v["deadHeadTrips"]["durations"].as_array_mut().unwrap().pop();
                        v["deadHeadTrips"]["distances"].as_array_mut().unwrap().pop();
                        for row in v["deadHeadTrips"]["durations"].as_array_mut().unwrap() {
                            row.as_array_mut().unwrap().pop();
                        }
                        for row in v["deadHeadTrips"]["distances"].as_array_mut().unwrap() {
                            row.as_array_mut().unwrap().pop();
                        }
                        "location missing in the dead-head matrix (default depots)"
                    }
                    7 => {
                        // the vehicle type of the first departure's route cannot carry anybody; the vehicle type of the first
                        // departure's route cannot carry anybody
                        let route_id = v["departures"][0]["route"].clone();
                        let type_id = v["routes"].as_array().and_then(|rs| rs.iter().find(|r| r["id"] == route_id)).map(|r| r["vehicleType"].clone()).unwrap_or(Value::Null);
                        if let Some(ts) = v["vehicleTypes"].as_array_mut() {
                            for t in ts.iter_mut().filter(|t| t["id"] == type_id) {
                                t["capacity"] = json!(0);
                                t["seats"] = json!(0);
                            }
                        }
                        "vehicle type with capacity 0"
                    }
                    8 => {
                        v["maintenanceSlots"] = json!([{"id": "bad_slot", "location": v["locations"][0]["id"], "start": "2024-02-28T10:00:00", "end": "2024-02-28T09:00:00", "trackCount": 1}]);
                        "maintenance slot ending before it starts"
                    }
                    0 => {
                        // the route of the first departure is certainly looked up by the loader
                        let rid = v["departures"][0]["route"].clone();
                        if let Some(rs) = v["routes"].as_array_mut() {
                            for r in rs.iter_mut().filter(|r| r["id"] == rid) {
                                r["vehicleType"] = json!("no_such_type");
                            }
                        }
                        "dangling vehicle type"
                    }
                    1 => {
                        v["departures"][0]["route"] = json!("no_such_route");
                        "dangling route"
                    }
                    2 => {
                        // the route segment of the first departure segment is certainly looked up
                        let rid = v["departures"][0]["route"].clone();
                        let sid = v["departures"][0]["segments"][0]["routeSegment"].clone();
                        if let Some(rs) = v["routes"].as_array_mut() {
                            for r in rs.iter_mut().filter(|r| r["id"] == rid) {
                                if let Some(sg) = r["segments"].as_array_mut() {
                                    for x in sg.iter_mut().filter(|x| x["id"] == sid) {
                                        x["origin"] = json!("no_such_location");
                                    }
                                }
                            }
                        }
                        "dangling location"
                    }
                    3 => {
                        v.as_object_mut().unwrap().remove("parameters");
                        "missing required key"
                    }
                    4 => {
                        v["departures"][0]["segments"][0]["departure"] = json!("yesterday at noon");
                        "unparsable date"
                    }
                    _ => {
                        v = json!([1, 2, 3]);
                        "JSON array instead of an object"
                    }
                };
                Req::Invalid { body: v.to_string(), what }
            }
            _ => {
                let inst = decode_inst(&mini_tape(rec), &self.cfg, &format!("q{}_", i));
                Req::Valid { input: inst.to_json(), inst }
            }
        }
    }
}

/// The same valid instance may travel in several equivalent forms: media type with a charset
/// parameter (RFC 9110 allows parameters; the unchanged server accepts them), pretty-printed body.
/// The choice is a pure function of the instance.
fn transport_variant(input: &Value) -> (&'static str, String) {
    let body = input.to_string();
    let mut h = Fnv::new();
    h.str(&body);
    match h.finish() % 8 {
        0 => ("application/json; charset=utf-8", body),
        1 => ("application/json;charset=UTF-8", body),
        2 => ("application/json", serde_json::to_string_pretty(input).unwrap_or(body)),
        _ => ("application/json", body),
    }
}

/// consecutive segments of one departure must be servable in order with minimal shunting
fn departures_servable(inst: &Inst) -> bool {
    for d in &inst.departures {
        let Some(route) = inst.routes.iter().find(|r| r.id == d.route) else { return false };
        let mut prev_arr: Option<i64> = None;
        for sg in &d.segs {
            let Some(rs) = route.segs.iter().find(|x| x.id == sg.rseg) else { return false };
            let Some(dep) = parse_time(&sg.departure) else { return false };
            if let Some(a) = prev_arr {
                if a + inst.shunt_min as i64 > dep {
                    return false;
                }
            }
            prev_arr = Some(dep + rs.duration as i64);
        }
    }
    true
}

fn check_valid_answer(i: usize, inst: &Inst, r: &Result<Resp, String>, fs: &mut Vec<Finding>) {
    match r {
        // a read timeout is a watchdog expiry (inconclusive, handled by the caller), anything else
        // (refused, closed without a response) is a failure that was not isolated
        Err(e) if e.contains("timed out") || e.contains("WouldBlock") || e.contains("os error 11") => fs.push(Finding { prop: "TIMEOUT", msg: format!("request {}: no answer within the watchdog: {}", i, e) }),
        Err(e) => fs.push(Finding { prop: "C18", msg: format!("request {}: valid /solve got no answer: {}", i, e) }),
        Ok(resp) => {
            if resp.status != 200 {
                fs.push(Finding { prop: "C18", msg: format!("request {}: valid /solve answered {} {}", i, resp.status, resp.body.chars().take(120).collect::<String>()) });
                return;
            }
            let Ok(out) = serde_json::from_str::<Value>(&resp.body) else {
                fs.push(Finding { prop: "C18", msg: format!("request {}: 200 answer is not JSON", i) });
                return;
            };
            let fl = match Flat::new(inst) {
                Ok(f) => f,
                Err(_) => return,
            };
            // its own instance: the segment ids of the answer are exactly this request's ids
            let want: std::collections::BTreeSet<String> = fl.segs.iter().map(|s| s.id.clone()).collect();
            let got: std::collections::BTreeSet<String> = out["schedule"]["departureSegments"].as_array().cloned().unwrap_or_default().iter().map(|d| d["departureSegment"].as_str().unwrap_or("").to_string()).collect();
            if want != got {
                fs.push(Finding { prop: "C18", msg: format!("request {}: the answer is not the solution of the instance it carried: segment ids {:?} instead of {:?}", i, got, want) });
                return;
            }
            let (findings, _, _) = ojson::validate(&fl, &out);
            if let Some(f) = findings.first() {
                fs.push(Finding { prop: "C18", msg: format!("request {}: answer is not a valid solution of its instance: [{}] {}", i, f.prop, f.msg) });
            }
        }
    }
}

impl Engine for HttpEngine {
    fn name(&self) -> &'static str {
        "http"
    }
    fn specs(&self) -> Vec<SecSpec> {
        vec![sec(4, 1, 1), sec(REQ_W, 2, self.max_requests)]
    }
    fn rule(&self) -> String {
        "request scripts (tape): 2-N requests, each GET /health | POST /solve with a valid instance (ids prefixed with the request number) | malformed body (truncated, wrong/no content type, syntax error, empty) | semantically invalid body (dangling type/route/location reference, missing key, unparsable date, non-object, capacity 0 of a used vehicle type, slot ending before it starts); 40 % of the valid requests are variants of an earlier valid request of the same script (exact re-send, or the same ids with other parameters only), released in batches of 1..k concurrent connections against the real server binary; every answer is attributed and validated (O-JSON), after the script a fresh /health and valid /solve must succeed and the server process must still be the same; distinct = tape digest; non-trivial = >= 2 valid solves of different instances in flight together AND >= 1 invalid/malformed body before the last valid one".to_string()
    }
    fn assumptions(&self) -> Vec<String> {
        vec!["the harness owns request order and concurrency level, not the server's thread schedule; interleavings are sampled".into(), "no response-time bound is asserted; only a generous per-request watchdog (inconclusive)".into()]
    }
    fn max_shrink_iters(&self) -> u32 {
        60
    }
    fn tolerated_inconclusive_fraction(&self) -> f64 {
        // a request that gets no answer within 90 s (typical: 20 ms) is never a violation, but the
        // run must not be reported as "held"
        0.0
    }

    fn eval(&self, tape: &Tape) -> CaseOutcome {
        let mut o = CaseOutcome::new(tape.digest());
        let p: Vec<u32> = tape.sec(0).first().cloned().unwrap_or_default();
        let mut reqs: Vec<Req> = tape.sec(1).iter().enumerate().map(|(i, r)| self.decode(i, r)).collect();
        // some valid requests become *variants* of an earlier valid request of the script: the same
        // instance (same ids!) with other `parameters` only, or an exact re-send. Each must still be
        // answered with a solution of exactly the instance it carried.
        for i in 1..reqs.len() {
            let r = &tape.sec(1)[i];
            if !matches!(reqs[i], Req::Valid { .. }) || pick_w(f(r, 108), &[3, 2]) == 0 {
                continue;
            }
            let earlier: Vec<usize> = (0..i).filter(|k| matches!(reqs[*k], Req::Valid { .. })).collect();
            if earlier.is_empty() {
                continue;
            }
            let k = earlier[pick(f(r, 109), earlier.len())];
            if let Req::Valid { inst, .. } = &reqs[k] {
                let mut v = inst.clone();
                match pick(f(r, 107), 4) {
                    0 => {} // exact re-send
                    1 => v.forbid = Some(!v.forbid.unwrap_or(false)),
                    2 => {
                        v.costs.dead_head = if v.costs.dead_head == 0 { 7 } else { 0 };
                        v.costs.idle += 3;
                        v.costs.service = v.costs.service * 2 + 1;
                    }
                    _ => {
                        v.shunt_min = if v.shunt_min == 0 { 600 } else { 0 };
                        v.max_distance = Some(v.max_distance.unwrap_or(0) / 2 + 500);
                    }
                }
                // keep the instance valid: consecutive segments of a departure stay servable only
                // if the minimal shunting did not grow beyond their gaps -> re-check with Flat
                if Flat::new(&v).is_ok() && departures_servable(&v) {
                    reqs[i] = Req::Valid { input: v.to_json(), inst: v };
                }
            }
        }
        let batch = 1 + pick(f(&p, 0), self.max_in_flight);
        if crate::engine_pipeline::WATCHDOG_EXPIRIES.load(std::sync::atomic::Ordering::SeqCst) >= 2 {
            o.inconclusive = Some("not executed: circuit breaker after 2 request watchdog expiries in this worker".into());
            return o;
        }
        let srv = match start_server() {
            Ok(s) => s,
            Err(e) => {
                o.inconclusive = Some(e);
                return o;
            }
        };
        let port = srv.port;
        let mut fs: Vec<Finding> = Vec::new();
        let mut log: Vec<String> = Vec::new();
        let timeout = Duration::from_secs(90);
        let mut concurrent_valid_pairs = false;
        let mut invalid_before_valid = false;
        let mut seen_invalid = false;
        let mut idx = 0usize;
        for chunk in reqs.chunks(batch) {
            let barrier = Arc::new(Barrier::new(chunk.len()));
            let mut handles = Vec::new();
            let valid_in_chunk = chunk.iter().filter(|r| matches!(r, Req::Valid { .. })).count();
            if valid_in_chunk >= 2 {
                concurrent_valid_pairs = true;
            }
            for (k, r) in chunk.iter().enumerate() {
                let r = r.clone();
                let b = barrier.clone();
                let i = idx + k;
                handles.push(std::thread::spawn(move || {
                    b.wait();
                    let resp = match &r {
                        Req::Health => http(port, "GET", "/health", None, None, timeout),
                        Req::Valid { input, .. } => {
                            let (ct, body) = transport_variant(input);
                            http(port, "POST", "/solve", Some(ct), Some(&body), timeout)
                        }
                        Req::Malformed { body, ctype, .. } => http(port, "POST", "/solve", ctype.as_deref(), Some(body), timeout),
                        Req::Invalid { body, .. } => http(port, "POST", "/solve", Some("application/json"), Some(body), timeout),
                    };
                    (i, r, resp)
                }));
            }
            for h in handles {
                let Ok((i, r, resp)) = h.join() else { continue };
                match &r {
                    Req::Health => {
                        log.push(format!("{}: GET /health -> {:?}", i, resp.as_ref().map(|x| x.status)));
                        match &resp {
                            Ok(x) if x.status == 200 && x.body == "Healthy" => {}
                            other => fs.push(Finding { prop: "C18", msg: format!("request {}: GET /health answered {:?} instead of 200 'Healthy'", i, other) }),
                        }
                    }
                    Req::Valid { inst, .. } => {
                        log.push(format!("{}: POST /solve valid ({} segments) -> {:?}", i, inst.departures.iter().map(|d| d.segs.len()).sum::<usize>(), resp.as_ref().map(|x| x.status)));
                        if seen_invalid {
                            invalid_before_valid = true;
                        }
                        check_valid_answer(i, inst, &resp, &mut fs);
                    }
                    Req::Malformed { what, .. } => {
                        seen_invalid = true;
                        log.push(format!("{}: POST /solve malformed ({}) -> {:?}", i, what, resp.as_ref().map(|x| x.status)));
                        match &resp {
                            Ok(x) if (400..500).contains(&x.status) => {}
                            Ok(x) => fs.push(Finding { prop: "C18", msg: format!("request {}: malformed body ({}) answered {} instead of 4xx", i, what, x.status) }),
                            Err(_) => {} // a closed connection also isolates the failure
                        }
                    }
                    Req::Invalid { what, .. } => {
                        seen_invalid = true;
                        log.push(format!("{}: POST /solve invalid ({}) -> {:?}", i, what, resp.as_ref().map(|x| x.status).map_err(|e| e.chars().take(40).collect::<String>())));
                        if let Ok(x) = &resp {
                            if x.status == 200 {
                                fs.push(Finding { prop: "C18", msg: format!("request {}: semantically invalid body ({}) answered 200 {}", i, what, x.body.chars().take(100).collect::<String>()) });
                            }
                        }
                    }
                }
            }
            idx += chunk.len();
        }
        // after the script: the same process still serves
        let mut srv = srv;
        if let Ok(Some(st)) = srv.child.try_wait() {
            fs.push(Finding { prop: "C18", msg: format!("the server process ended ({:?}) during the script {:?}", st.code(), log) });
        } else {
            match http(port, "GET", "/health", None, None, timeout) {
                Ok(x) if x.status == 200 && x.body == "Healthy" => {}
                other => fs.push(Finding { prop: "C18", msg: format!("after the script GET /health answered {:?}", other) }),
            }
            let probe = decode_inst(&mini_tape(&p.iter().cycle().take(REQ_W).copied().collect::<Vec<u32>>()), &self.cfg, "probe_");
            let r = http(port, "POST", "/solve", Some("application/json"), Some(&probe.to_json().to_string()), timeout);
            check_valid_answer(9999, &probe, &r, &mut fs);
        }
        drop(srv);
        o.classes.push(format!("in_flight={}", batch.min(reqs.len())));
        for r in &reqs {
            o.classes.push(
                match r {
                    Req::Health => "req:health",
                    Req::Valid { .. } => "req:valid",
                    Req::Malformed { .. } => "req:malformed",
                    Req::Invalid { .. } => "req:invalid",
                }
                .to_string(),
            );
        }
        if let Some(t) = fs.iter().find(|f| f.prop == "TIMEOUT") {
            crate::engine_pipeline::WATCHDOG_EXPIRIES.fetch_add(1, std::sync::atomic::Ordering::SeqCst);
            o.inconclusive = Some(t.msg.clone());
        }
        fs.retain(|f| f.prop != "TIMEOUT");
        o.classes.sort();
        o.classes.dedup();
        o.nontrivial = concurrent_valid_pairs && invalid_before_valid;
        o.sample = json!({"in_flight": batch, "script": log});
        o.findings = fs;
        o
    }
}
