//! C15, thorough tier: EVERY operation sequence up to a small depth over small vehicle sets
//! (depth-first enumeration with explicit arguments; the tape-driven random sequences live in
//! engine_transition.rs). Same reference model (R-CYCLES) and the same `check_transition`.

use crate::engine_history::random_chain;
use crate::engine_transition::{check_transition, TransitionEngine, S_VEH};
use crate::gen_inst::*;
use crate::ojson::Finding;
use crate::sut::{self, Ctx};
use crate::tape::*;
use im::HashMap as ImHashMap;
use model::base_types::VehicleIdx;
use proptest::strategy::{Strategy, ValueTree};
use proptest::test_runner::{Config, RngAlgorithm, TestRng, TestRunner};
use serde_json::{json, Value};
use solution::tour::Tour;
use solution::transition::Transition;
use solution::Schedule;
use std::collections::BTreeMap;

#[derive(Clone, Debug, PartialEq)]
pub enum Op {
    Update(VehicleIdx),
    AddOwn(VehicleIdx),
    Remove(VehicleIdx),
    AddEnd(VehicleIdx, usize),
    Move(VehicleIdx, usize),
    ThreeOpt(usize, usize, usize, usize),
    Double(VehicleIdx, VehicleIdx, bool),
}

impl Op {
    pub fn to_json(&self) -> Value {
        match self {
            Op::Update(v) => json!(["update", v.idx()]),
            Op::AddOwn(v) => json!(["add_own", v.idx()]),
            Op::Remove(v) => json!(["remove", v.idx()]),
            Op::AddEnd(v, c) => json!(["add_end", v.idx(), c]),
            Op::Move(v, c) => json!(["move", v.idx(), c]),
            Op::ThreeOpt(c, i, j, k) => json!(["three_opt", c, i, j, k]),
            Op::Double(a, b, r) => json!(["double", a.idx(), b.idx(), r]),
        }
    }
    pub fn from_json(v: &Value) -> Option<Op> {
        let veh = |i: usize| v[i].as_u64().map(|x| VehicleIdx::vehicle_from(x as u16));
        let num = |i: usize| v[i].as_u64().map(|x| x as usize);
        Some(match v[0].as_str()? {
            "update" => Op::Update(veh(1)?),
            "add_own" => Op::AddOwn(veh(1)?),
            "remove" => Op::Remove(veh(1)?),
            "add_end" => Op::AddEnd(veh(1)?, num(2)?),
            "move" => Op::Move(veh(1)?, num(2)?),
            "three_opt" => Op::ThreeOpt(num(1)?, num(2)?, num(3)?, num(4)?),
            "double" => Op::Double(veh(1)?, veh(2)?, v[3].as_bool()?),
            _ => return None,
        })
    }
}

#[derive(Clone)]
pub struct St {
    pub t: Transition,
    pub model: Vec<Vec<VehicleIdx>>,
    pub tours: ImHashMap<VehicleIdx, Tour>,
    pub alts: BTreeMap<VehicleIdx, Tour>,
}

pub struct Base {
    pub cx: Ctx,
    pub ids: Vec<VehicleIdx>,
    pub st: St,
    pub descr: Value,
}

/// Build the vehicles of a tape exactly as the tape-driven engine does.
pub fn build_base(engine: &TransitionEngine, tape: &Tape) -> Option<Base> {
    let inst = decode_inst(tape, &engine.cfg, "");
    let input = inst.to_json();
    let cx = sut::catch(|| Ctx::load(&input)).ok()?.ok()?;
    let nd = cx.depots.len();
    let mut sched = Schedule::empty(cx.net.clone());
    let mut alts: BTreeMap<VehicleIdx, Tour> = BTreeMap::new();
    let mut ids = Vec::new();
    for r in tape.sec(S_VEH).iter().take(engine.max_vehicles) {
        let mut path = random_chain(&cx, 0, r, 0);
        if path.is_empty() {
            continue;
        }
        path.insert(0, cx.depots[pick(f(r, 6), nd)].1);
        path.push(cx.depots[pick(f(r, 7), nd)].2);
        if let Ok((s, id)) = sched.spawn_vehicle_for_path(cx.types[0], path) {
            sched = s;
            let t = sched.tour_of(id).unwrap();
            if let Ok(a) = t.replace_start_depot(cx.depots[pick(f(r, 8), nd)].1).and_then(|t| t.replace_end_depot(cx.depots[pick(f(r, 9), nd)].2)) {
                alts.insert(id, a);
            }
            ids.push(id);
        }
    }
    let t = sched.next_day_transition_of(cx.types[0]).clone();
    let model = t.cycles_iter().map(|c| c.get_vec().clone()).collect();
    let descr = json!({"instance": cx.flat.summary(), "vehicles": ids.iter().map(|v| format!("{}: {:?}", v, cx.tour_names(&sched, *v))).collect::<Vec<_>>()});
    let tours = sched.get_tours().clone();
    Some(Base { cx, ids, st: St { t, model, tours, alts }, descr })
}

pub fn all_ops(st: &St, ids: &[VehicleIdx]) -> Vec<Op> {
    let present: Vec<VehicleIdx> = st.model.iter().flatten().copied().collect();
    let absent: Vec<VehicleIdx> = ids.iter().copied().filter(|v| !present.contains(v)).collect();
    let nc = st.model.len();
    let mut ops = Vec::new();
    for v in &present {
        if st.alts.contains_key(v) {
            ops.push(Op::Update(*v));
        }
        ops.push(Op::Remove(*v));
        for c in 0..nc {
            ops.push(Op::Move(*v, c));
        }
    }
    for v in &absent {
        ops.push(Op::AddOwn(*v));
        for c in 0..nc {
            ops.push(Op::AddEnd(*v, c));
        }
    }
    for (c, cy) in st.model.iter().enumerate() {
        let n = cy.len();
        if n >= 3 {
            for i in 0..n - 2 {
                for j in i + 1..n - 1 {
                    for k in j + 1..n {
                        ops.push(Op::ThreeOpt(c, i, j, k));
                    }
                }
            }
        }
        if n >= 2 {
            for i in 0..n {
                let (a, b) = (cy[i], cy[(i + 1) % n]);
                for (first, second) in [(a, b), (b, a)] {
                    if st.alts.contains_key(&first) && st.alts.contains_key(&second) {
                        ops.push(Op::Double(first, second, false));
                        ops.push(Op::Double(first, second, true));
                    }
                }
            }
        }
    }
    ops
}

/// Apply one operation to the implementation and to the model; Err = panic message.
pub fn apply(cx: &Ctx, st: &mut St, op: &Op) -> Result<(), String> {
    let empty: ImHashMap<VehicleIdx, &Tour> = ImHashMap::new();
    let res = sut::catch(|| match op {
        Op::Update(v) => st.t.update_vehicle(*v, &st.alts[v], &empty, &st.tours, &cx.net),
        Op::AddOwn(v) => st.t.add_vehicle_to_own_cycle(*v, &st.tours[v], &cx.net),
        Op::Remove(v) => st.t.remove_vehicle(*v, &empty, &st.tours, &cx.net),
        Op::AddEnd(v, c) => st.t.add_vehicle_at_the_end(*v, *c, &empty, &st.tours, &cx.net),
        Op::Move(v, c) => st.t.move_vehicle(*v, *c, &st.tours, &cx.net),
        Op::ThreeOpt(c, i, j, k) => {
            let nc = st.t.get_cycle(*c).three_opt(*i, *j, *k, &st.tours, &cx.net);
            st.t.replace_cycle(*c, nc)
        }
        Op::Double(first, second, remove_second) => {
            let t1 = st.t.update_vehicle(*first, &st.alts[first], &empty, &st.tours, &cx.net);
            let mut upd: ImHashMap<VehicleIdx, &Tour> = ImHashMap::new();
            upd.insert(*first, &st.alts[first]);
            if *remove_second {
                t1.remove_vehicle(*second, &upd, &st.tours, &cx.net)
            } else {
                t1.update_vehicle(*second, &st.alts[second], &upd, &st.tours, &cx.net)
            }
        }
    });
    let nt = res.map_err(|p| format!("PANIC at {}: {}", p.file(), p.msg.chars().take(200).collect::<String>()))?;
    // ---- model
    let swap_alt = |st: &mut St, v: VehicleIdx| {
        let old = st.tours.get(&v).unwrap().clone();
        let alt = st.alts.get(&v).unwrap().clone();
        st.tours.insert(v, alt);
        st.alts.insert(v, old);
    };
    match op {
        Op::Update(v) => swap_alt(st, *v),
        Op::AddOwn(v) => {
            // which empty cycle is re-used is the implementation's choice
            let got: Vec<Vec<VehicleIdx>> = nt.cycles_iter().map(|c| c.get_vec().clone()).collect();
            match got.iter().position(|c| c.contains(v)) {
                Some(i) if i < st.model.len() && st.model[i].is_empty() => st.model[i] = vec![*v],
                Some(i) if i == st.model.len() => st.model.push(vec![*v]),
                other => return Err(format!("add_vehicle_to_own_cycle({}): vehicle ended up at cycle index {:?}; cycles before {:?}, after {:?}", v, other, st.model, got)),
            }
        }
        Op::Remove(v) => st.model.iter_mut().for_each(|c| c.retain(|x| x != v)),
        Op::AddEnd(v, c) => st.model[*c].push(*v),
        Op::Move(v, c) => {
            st.model.iter_mut().for_each(|cy| cy.retain(|x| x != v));
            st.model[*c].push(*v);
        }
        Op::ThreeOpt(c, i, j, k) => {
            let old = st.model[*c].clone();
            let mut nc: Vec<VehicleIdx> = old[..=*i].to_vec();
            nc.extend(&old[*j + 1..=*k]);
            nc.extend(&old[*i + 1..=*j]);
            nc.extend(&old[*k + 1..]);
            st.model[*c] = nc;
        }
        Op::Double(first, second, remove_second) => {
            swap_alt(st, *first);
            if *remove_second {
                st.model.iter_mut().for_each(|c| c.retain(|x| x != second));
            } else {
                swap_alt(st, *second);
            }
        }
    }
    st.t = nt;
    Ok(())
}

fn dfs(cx: &Ctx, ids: &[VehicleIdx], st: &St, depth: usize, path: &mut Vec<Op>, nodes: &mut u64, failure: &mut Option<(Vec<Op>, String)>) {
    if depth == 0 || failure.is_some() {
        return;
    }
    for op in all_ops(st, ids) {
        let mut next = st.clone();
        path.push(op.clone());
        *nodes += 1;
        match apply(cx, &mut next, &op) {
            Err(m) => {
                *failure = Some((path.clone(), m));
                return;
            }
            Ok(()) => {
                let mut fs: Vec<Finding> = Vec::new();
                check_transition(cx, &next.t, &next.model, &next.tours, "after the sequence", &mut fs);
                if let Some(f) = fs.first() {
                    *failure = Some((path.clone(), f.msg.clone()));
                    return;
                }
                dfs(cx, ids, &next, depth - 1, path, nodes, failure);
                if failure.is_some() {
                    return;
                }
            }
        }
        path.pop();
    }
}

/// base setups: the first tapes (fixed library seed) that yield 3 or 4 vehicles
pub fn base_tapes(engine: &TransitionEngine, want: usize) -> Vec<Tape> {
    let strat = tape_strategy(&crate::runner::Engine::specs(engine));
    let mut runner = TestRunner::new_with_rng(Config::default(), TestRng::from_seed(RngAlgorithm::ChaCha, &expand_seed(4242, "C15-exhaustive", 0)));
    let mut out = Vec::new();
    let mut tries = 0;
    while out.len() < want && tries < 4000 {
        tries += 1;
        let t = strat.new_tree(&mut runner).unwrap().current();
        if let Some(b) = build_base(engine, &t) {
            // 3 or 4 vehicles, at least two different depots in use (non-zero transfers matter)
            if (3..=4).contains(&b.ids.len()) && b.st.alts.len() == b.ids.len() {
                out.push(t);
            }
        }
    }
    out
}

pub const N_BASES: usize = 28;

pub fn exhaustive_shard(shard: usize, nshards: usize) -> Value {
    let engine = TransitionEngine::new("thorough");
    let tapes = base_tapes(&engine, N_BASES);
    let mut sequences = 0u64;
    let mut bases = 0u64;
    let mut failure = Value::Null;
    for (bi, tape) in tapes.iter().enumerate() {
        if bi % nshards != shard {
            continue;
        }
        let Some(base) = build_base(&engine, tape) else { continue };
        let depth = if base.ids.len() <= 3 { 5 } else { 4 };
        bases += 1;
        // iterative deepening: a failure is reported with a shortest sequence
        let mut nodes = 0u64;
        let mut fail = None;
        for d in 1..=depth {
            nodes = 0;
            let mut path = Vec::new();
            dfs(&base.cx, &base.ids, &base.st, d, &mut path, &mut nodes, &mut fail);
            if fail.is_some() {
                break;
            }
        }
        sequences += nodes;
        if let Some((ops, msg)) = fail {
            failure = json!({"message": format!("{} [sequence: {:?}]", msg, ops), "exhaustive_case": {"base_tape": tape.to_json(), "ops": ops.iter().map(|o| o.to_json()).collect::<Vec<_>>()}, "decoded_case": base.descr});
            break;
        }
    }
    json!({"base_setups": bases, "sequences": sequences, "failure": failure})
}

pub fn replay_exhaustive_case(v: &Value) -> Vec<String> {
    let engine = TransitionEngine::new("thorough");
    let Some(tape) = Tape::from_json(&v["base_tape"]) else { return Vec::new() };
    let Some(base) = build_base(&engine, &tape) else { return Vec::new() };
    let mut st = base.st.clone();
    for o in v["ops"].as_array().cloned().unwrap_or_default() {
        let Some(op) = Op::from_json(&o) else { return Vec::new() };
        if let Err(m) = apply(&base.cx, &mut st, &op) {
            return vec![m];
        }
        let mut fs = Vec::new();
        check_transition(&base.cx, &st.t, &st.model, &st.tours, "after the sequence", &mut fs);
        if let Some(f) = fs.first() {
            return vec![f.msg.clone()];
        }
    }
    Vec::new()
}
