//! Generic runner: proptest-driven workers (one process each), aggregation, known findings,
//! replay files, evidence, exit codes.

use crate::ojson::Finding;
use crate::sut;
use crate::tape::*;
use proptest::test_runner::{Config, RngAlgorithm, TestCaseError, TestError, TestRng, TestRunner};
use serde_json::{json, Value};
use std::cell::RefCell;
use std::collections::{BTreeMap, BTreeSet};
use std::io::Read;
use std::path::{Path, PathBuf};
use std::process::{Command, Stdio};
use std::time::{Duration, Instant};

pub struct CaseOutcome {
    pub findings: Vec<Finding>,
    pub classes: Vec<String>,
    pub nontrivial: bool,
    pub digest: u64,
    pub sample: Value,
    /// Some(reason): the case could not be decided (watchdog); never a violation
    pub inconclusive: Option<String>,
    /// the case was not executed / not checked because it hits a listed finding owned by another
    /// check (counted as excluded_by_known_finding)
    pub excluded: Option<String>,
    /// additive counters (e.g. pairs checked inside one case)
    pub counters: BTreeMap<String, u64>,
}

impl CaseOutcome {
    pub fn new(digest: u64) -> CaseOutcome {
        CaseOutcome { findings: Vec::new(), classes: Vec::new(), nontrivial: false, digest, sample: Value::Null, inconclusive: None, excluded: None, counters: BTreeMap::new() }
    }
}

pub trait Engine {
    fn name(&self) -> &'static str;
    fn specs(&self) -> Vec<SecSpec>;
    fn eval(&self, tape: &Tape) -> CaseOutcome;
    fn rule(&self) -> String;
    fn assumptions(&self) -> Vec<String> {
        Vec::new()
    }
    /// extra, engine-specific evidence (e.g. exhaustive sub-space)
    fn extra_evidence(&self) -> Value {
        Value::Null
    }
    fn max_shrink_iters(&self) -> u32 {
        1500
    }
    /// wall-clock budget for shrinking (ms); shrinking only post-processes a failure
    fn max_shrink_time_ms(&self) -> u32 {
        120_000
    }
    /// largest tolerated fraction of cases that could not be decided (watchdog expiry, broken
    /// child); above it the run is reported as inconclusive (exit 2), never as a violation
    fn tolerated_inconclusive_fraction(&self) -> f64 {
        0.2
    }
}

// ---------------------------------------------------------------------------------------------
// known findings
// ---------------------------------------------------------------------------------------------

#[derive(Clone, Debug)]
pub struct KnownFinding {
    pub id: String,
    pub property: String,
    pub status: String, // "open" | "fixed"
    pub match_all: Vec<String>,
    pub what: String,
}

pub fn verif_root() -> PathBuf {
    std::env::var("VERIF_ROOT").map(PathBuf::from).unwrap_or_else(|_| PathBuf::from("/verif"))
}

pub fn load_known() -> Vec<KnownFinding> {
    let p = verif_root().join("known_findings.json");
    let Ok(s) = std::fs::read_to_string(&p) else { return Vec::new() };
    let Ok(v) = serde_json::from_str::<Value>(&s) else { return Vec::new() };
    let mut out = Vec::new();
    for f in v.get("findings").and_then(|x| x.as_array()).cloned().unwrap_or_default() {
        out.push(KnownFinding {
            id: f["id"].as_str().unwrap_or("").to_string(),
            property: f["property"].as_str().unwrap_or("").to_string(),
            status: f["status"].as_str().unwrap_or("open").to_string(),
            match_all: f["match_all"].as_array().map(|a| a.iter().map(|x| x.as_str().unwrap_or("").to_string()).collect()).unwrap_or_default(),
            what: f["what"].as_str().unwrap_or("").to_string(),
        });
    }
    out
}

/// An *open* listed finding whose signature matches this finding (fixed entries suppress nothing).
pub fn match_known<'a>(known: &'a [KnownFinding], f: &Finding) -> Option<&'a KnownFinding> {
    known.iter().find(|k| k.status == "open" && k.property == f.prop && !k.match_all.is_empty() && k.match_all.iter().all(|m| f.msg.contains(m.as_str())))
}

// ---------------------------------------------------------------------------------------------
// worker
// ---------------------------------------------------------------------------------------------

#[derive(Default)]
struct Stats {
    evaluations: u64,
    nontrivial: BTreeSet<u64>,
    classes: BTreeMap<String, u64>,
    samples: Vec<Value>,
    trivial_samples: Vec<Value>,
    known_hits: BTreeMap<String, (u64, String)>,
    excluded: u64,
    excluded_reasons: BTreeMap<String, u64>,
    inconclusive: Vec<String>,
    inconclusive_count: u64,
    other_property_findings: BTreeMap<String, u64>,
    other_examples: BTreeMap<String, Vec<String>>,
    counters: BTreeMap<String, u64>,
    failed: bool,
}

pub fn run_worker(engine: &dyn Engine, prop: &str, seed: u64, widx: u64, cases: u32) -> Value {
    let known = load_known();
    let stats = RefCell::new(Stats::default());
    let config = Config { cases, failure_persistence: None, max_shrink_iters: engine.max_shrink_iters(), max_shrink_time: engine.max_shrink_time_ms(), max_global_rejects: 10, verbose: 0, ..Config::default() };
    let rng = TestRng::from_seed(RngAlgorithm::ChaCha, &expand_seed(seed, prop, widx));
    let mut runner = TestRunner::new_with_rng(config, rng);
    let strat = tape_strategy(&engine.specs());
    let journal = std::env::var("RSV_JOURNAL").ok();
    let result = runner.run(&strat, |tape| {
        if let Some(j) = &journal {
            let _ = std::fs::write(j, tape.to_json().to_string());
        }
        let o = engine.eval(&tape);
        let mut st = stats.borrow_mut();
        let counting = !st.failed;
        if counting {
            st.evaluations += 1;
            for c in &o.classes {
                *st.classes.entry(c.clone()).or_insert(0) += 1;
            }
            for (k, n) in &o.counters {
                *st.counters.entry(k.clone()).or_insert(0) += n;
            }
            if let Some(r) = &o.excluded {
                st.excluded += 1;
                *st.excluded_reasons.entry(r.clone()).or_insert(0) += 1;
            }
            if let Some(r) = &o.inconclusive {
                st.inconclusive_count += 1;
                if st.inconclusive.len() < 20 {
                    st.inconclusive.push(r.clone());
                }
            }
            if o.nontrivial && o.excluded.is_none() && o.inconclusive.is_none() {
                if st.nontrivial.insert(o.digest) && st.samples.len() < 4 {
                    st.samples.push(o.sample.clone());
                }
            } else if st.trivial_samples.len() < 1 {
                st.trivial_samples.push(o.sample.clone());
            }
        }
        let mut violation: Option<String> = None;
        for f in &o.findings {
            if f.prop != prop {
                if counting {
                    *st.other_property_findings.entry(f.prop.to_string()).or_insert(0) += 1;
                    let e = st.other_examples.entry(f.prop.to_string()).or_default();
                    if e.len() < 6 {
                        e.push(f.msg.clone());
                    }
                }
                continue;
            }
            if let Some(k) = match_known(&known, f) {
                if counting {
                    let e = st.known_hits.entry(k.id.clone()).or_insert((0, f.msg.clone()));
                    e.0 += 1;
                }
                continue;
            }
            if violation.is_none() {
                violation = Some(f.msg.clone());
            }
        }
        match violation {
            Some(m) => {
                st.failed = true;
                Err(TestCaseError::fail(m))
            }
            None => Ok(()),
        }
    });
    let st = stats.into_inner();
    let failure = match result {
        Ok(()) => Value::Null,
        Err(TestError::Fail(reason, tape)) => {
            // re-evaluate the shrunk case for its final message and decoded form
            let o = engine.eval(&tape);
            let msgs: Vec<String> = o.findings.iter().filter(|f| f.prop == prop && match_known(&known, f).is_none()).map(|f| f.msg.clone()).collect();
            json!({"tape": tape.to_json(), "message": msgs.first().cloned().unwrap_or_else(|| reason.message().to_string()), "all_messages": msgs, "decoded_case": o.sample, "shrunk_reproduces": !msgs.is_empty()})
        }
        Err(TestError::Abort(r)) => json!({"abort": r.message().to_string()}),
    };
    json!({
        "evaluations": st.evaluations,
        "nontrivial": st.nontrivial.iter().collect::<Vec<_>>(),
        "classes": st.classes,
        "samples": st.samples,
        "trivial_samples": st.trivial_samples,
        "known_hits": st.known_hits.iter().map(|(k, v)| (k.clone(), json!({"count": v.0, "example": v.1}))).collect::<BTreeMap<_, _>>(),
        "excluded": st.excluded,
        "excluded_reasons": st.excluded_reasons,
        "inconclusive": st.inconclusive,
        "inconclusive_count": st.inconclusive_count,
        "other_property_findings": st.other_property_findings,
        "other_examples": st.other_examples,
        "counters": st.counters,
        "failure": failure,
    })
}

// ---------------------------------------------------------------------------------------------
// parent
// ---------------------------------------------------------------------------------------------

pub struct RunSpec {
    pub tolerated_inconclusive_fraction: f64,
    pub prop: String,
    pub tier: String,
    pub seed: u64,
    pub cases: u32,
    pub workers: u32,
    pub watchdog: Duration,
    pub level_rule: String,
    pub assumptions: Vec<String>,
    pub engine_name: String,
    pub extra: Value,
}

pub struct Aggregate {
    pub evaluations: u64,
    pub nontrivial: BTreeSet<u64>,
    pub classes: BTreeMap<String, u64>,
    pub samples: Vec<Value>,
    pub known_hits: BTreeMap<String, (u64, String)>,
    pub excluded: u64,
    pub excluded_reasons: BTreeMap<String, u64>,
    pub inconclusive: Vec<String>,
    pub inconclusive_count: u64,
    pub other_property_findings: BTreeMap<String, u64>,
    pub failures: Vec<Value>,
    pub worker_errors: Vec<String>,
    pub counters: BTreeMap<String, u64>,
}

pub fn run_parent(spec: &RunSpec, extra_args: &[String]) -> Aggregate {
    let exe = std::env::current_exe().expect("current_exe");
    let per = (spec.cases + spec.workers - 1) / spec.workers;
    let mut children = Vec::new();
    let jdir = verif_root().join("harness").join("journal");
    let _ = std::fs::create_dir_all(&jdir);
    for w in 0..spec.workers {
        let mut cmd = Command::new(&exe);
        cmd.arg("worker").arg(&spec.prop).arg(&spec.tier).arg(spec.seed.to_string()).arg(w.to_string()).arg(per.to_string());
        for a in extra_args {
            cmd.arg(a);
        }
        cmd.env("RSV_JOURNAL", jdir.join(format!("{}_{}.json", spec.prop, w)));
        cmd.env("RAYON_NUM_THREADS", std::env::var("RSV_RAYON").unwrap_or_else(|_| "2".to_string()));
        cmd.stdin(Stdio::null()).stdout(Stdio::piped()).stderr(Stdio::piped());
        match cmd.spawn() {
            Ok(c) => children.push((w, c)),
            Err(e) => panic!("cannot spawn worker: {}", e),
        }
    }
    let mut agg = Aggregate {
        evaluations: 0,
        nontrivial: BTreeSet::new(),
        classes: BTreeMap::new(),
        samples: Vec::new(),
        known_hits: BTreeMap::new(),
        excluded: 0,
        excluded_reasons: BTreeMap::new(),
        inconclusive: Vec::new(),
        inconclusive_count: 0,
        other_property_findings: BTreeMap::new(),
        failures: Vec::new(),
        worker_errors: Vec::new(),
        counters: BTreeMap::new(),
    };
    let deadline = Instant::now() + spec.watchdog;
    // reader threads so that a chatty child cannot block on a full pipe
    let mut handles = Vec::new();
    for (w, mut c) in children {
        let mut so = c.stdout.take().unwrap();
        let mut se = c.stderr.take().unwrap();
        let h_out = std::thread::spawn(move || {
            let mut s = String::new();
            let _ = so.read_to_string(&mut s);
            s
        });
        let h_err = std::thread::spawn(move || {
            let mut s = String::new();
            let _ = se.read_to_string(&mut s);
            s
        });
        handles.push((w, c, h_out, h_err));
    }
    for (w, mut c, h_out, h_err) in handles {
        let status = loop {
            match c.try_wait() {
                Ok(Some(st)) => break Some(st),
                Ok(None) => {
                    if Instant::now() > deadline {
                        let _ = c.kill();
                        let _ = c.wait();
                        break None;
                    }
                    std::thread::sleep(Duration::from_millis(20));
                }
                Err(_) => break None,
            }
        };
        let so = h_out.join().unwrap_or_default();
        let se = h_err.join().unwrap_or_default();
        let Some(status) = status else {
            agg.worker_errors.push(format!("worker {} exceeded the watchdog of {:?} and was killed (journal: harness/journal/{}_{}.json)", w, spec.watchdog, spec.prop, w));
            continue;
        };
        let line = so.lines().rev().find(|l| l.starts_with("RESULT ")).map(|l| l[7..].to_string());
        let Some(line) = line else {
            agg.worker_errors.push(format!("worker {} ended with {:?} without a result; stderr tail: {}", w, status.code(), se.chars().rev().take(600).collect::<String>().chars().rev().collect::<String>()));
            continue;
        };
        let Ok(v) = serde_json::from_str::<Value>(&line) else {
            agg.worker_errors.push(format!("worker {} wrote an unparsable result", w));
            continue;
        };
        agg.evaluations += v["evaluations"].as_u64().unwrap_or(0);
        for d in v["nontrivial"].as_array().cloned().unwrap_or_default() {
            if let Some(x) = d.as_u64() {
                agg.nontrivial.insert(x);
            }
        }
        if let Some(m) = v["classes"].as_object() {
            for (k, n) in m {
                *agg.classes.entry(k.clone()).or_insert(0) += n.as_u64().unwrap_or(0);
            }
        }
        for s in v["samples"].as_array().cloned().unwrap_or_default() {
            if agg.samples.len() < 5 {
                agg.samples.push(s);
            }
        }
        if agg.samples.is_empty() {
            for s in v["trivial_samples"].as_array().cloned().unwrap_or_default() {
                agg.samples.push(s);
            }
        }
        if let Some(m) = v["known_hits"].as_object() {
            for (k, x) in m {
                let e = agg.known_hits.entry(k.clone()).or_insert((0, x["example"].as_str().unwrap_or("").to_string()));
                e.0 += x["count"].as_u64().unwrap_or(0);
            }
        }
        if let Some(m) = v["counters"].as_object() {
            for (k, n) in m {
                *agg.counters.entry(k.clone()).or_insert(0) += n.as_u64().unwrap_or(0);
            }
        }
        agg.excluded += v["excluded"].as_u64().unwrap_or(0);
        if let Some(m) = v["excluded_reasons"].as_object() {
            for (k, n) in m {
                *agg.excluded_reasons.entry(k.clone()).or_insert(0) += n.as_u64().unwrap_or(0);
            }
        }
        agg.inconclusive_count += v["inconclusive_count"].as_u64().unwrap_or(0);
        for s in v["inconclusive"].as_array().cloned().unwrap_or_default() {
            if agg.inconclusive.len() < 20 {
                agg.inconclusive.push(s.as_str().unwrap_or("").to_string());
            }
        }
        if let Some(m) = v["other_property_findings"].as_object() {
            for (k, n) in m {
                *agg.other_property_findings.entry(k.clone()).or_insert(0) += n.as_u64().unwrap_or(0);
            }
        }
        if std::env::var("RSV_VERBOSE").is_ok() {
            if let Some(m) = v["other_examples"].as_object() {
                for (k, xs) in m {
                    for x in xs.as_array().cloned().unwrap_or_default() {
                        sut::outln(&format!("[other {}] {}", k, x.as_str().unwrap_or("")));
                    }
                }
            }
        }
        if !v["failure"].is_null() {
            let mut f = v["failure"].clone();
            f["worker"] = json!(w);
            agg.failures.push(f);
        }
    }
    agg
}

pub fn write_json(path: &Path, v: &Value) {
    if let Some(p) = path.parent() {
        let _ = std::fs::create_dir_all(p);
    }
    std::fs::write(path, serde_json::to_string_pretty(v).unwrap()).expect("write json");
}

/// Final verdict of a check run. Returns the process exit code.
#[allow(clippy::too_many_arguments)]
pub fn finish(spec: &RunSpec, agg: &Aggregate, regress: &RegressReport, started: Instant) -> i32 {
    let known = load_known();
    let root = verif_root();
    let mut exit = 0;
    // replay files for violations
    let mut violation_paths = Vec::new();
    for (i, f) in agg.failures.iter().enumerate() {
        if f.get("abort").is_some() {
            continue;
        }
        let p = root.join("replay").join(&spec.prop).join(format!("{}_{}_seed{}_{}.json", spec.prop, spec.tier, spec.seed, i));
        let file = json!({
            "property": spec.prop, "engine": spec.engine_name, "tier": spec.tier, "seed": spec.seed,
            "tape": f["tape"], "message": f["message"], "all_messages": f["all_messages"],
            "decoded_case": f["decoded_case"], "shrunk_reproduces": f["shrunk_reproduces"],
        });
        write_json(&p, &file);
        violation_paths.push((p, f["message"].as_str().unwrap_or("").to_string()));
    }
    for (p, m) in regress.violations.iter() {
        violation_paths.push((p.clone(), m.clone()));
    }
    // KNOWN-FINDING lines: every open listed finding of this property that was re-confirmed
    let mut confirmed: BTreeMap<String, String> = BTreeMap::new();
    for (id, (_, ex)) in agg.known_hits.iter() {
        confirmed.insert(id.clone(), ex.clone());
    }
    for (id, ex) in regress.known_confirmed.iter() {
        confirmed.entry(id.clone()).or_insert(ex.clone());
    }
    for k in known.iter().filter(|k| k.property == spec.prop && k.status == "open") {
        if let Some(ex) = confirmed.get(&k.id) {
            sut::outln(&format!("KNOWN-FINDING: property={} {} [{}] e.g. {}", spec.prop, k.what, k.id, ex.chars().take(300).collect::<String>()));
        } else {
            sut::outln(&format!("note: listed finding {} of {} was not re-confirmed by this run", k.id, spec.prop));
        }
    }
    for (p, m) in &violation_paths {
        sut::outln(&format!("VIOLATION property={} replay={}", spec.prop, p.display()));
        sut::outln(&format!("  {}", m.chars().take(1200).collect::<String>()));
        exit = 1;
    }
    let inconclusive_run = !agg.worker_errors.is_empty() || agg.failures.iter().any(|f| f.get("abort").is_some());
    if exit == 0 && inconclusive_run {
        for e in &agg.worker_errors {
            sut::outln(&format!("INCONCLUSIVE: {}", e));
        }
        exit = 2;
    }
    if exit == 0 && agg.inconclusive_count as f64 > spec.tolerated_inconclusive_fraction * (agg.evaluations.max(1) as f64) {
        sut::outln(&format!(
            "INCONCLUSIVE: {} of {} cases could not be decided (tolerated fraction {}), e.g. {}",
            agg.inconclusive_count,
            agg.evaluations,
            spec.tolerated_inconclusive_fraction,
            agg.inconclusive.iter().take(2).cloned().collect::<Vec<_>>().join(" | ")
        ));
        exit = 2;
    }
    // evidence
    let mut samples = agg.samples.clone();
    if samples.is_empty() {
        samples.push(json!("no case was generated"));
    }
    let mut coverage = json!({
        "evaluations": agg.evaluations + regress.executed,
        "distinct_nontrivial": agg.nontrivial.len(),
        "rule": spec.level_rule,
        "samples": samples,
        "classes": agg.classes,
        "counters": agg.counters,
        "excluded_by_known_finding": agg.excluded,
        "excluded_reasons": agg.excluded_reasons,
        "known_finding_hits": agg.known_hits.iter().map(|(k, v)| (k.clone(), json!(v.0))).collect::<BTreeMap<_, _>>(),
        "inconclusive_cases": agg.inconclusive_count,
        "inconclusive_examples": agg.inconclusive.iter().take(3).collect::<Vec<_>>(),
        "findings_for_other_properties_seen": agg.other_property_findings,
        "regression_cases_replayed": regress.executed,
        "generated_cases": agg.evaluations,
        "workers": spec.workers,
        "worker_errors": agg.worker_errors,
        "engine": spec.engine_name,
    });
    if let Some(m) = spec.extra.as_object() {
        for (k, v) in m {
            coverage[k] = v.clone();
        }
    }
    let ev = json!({
        "property_id": spec.prop,
        "tier": spec.tier,
        "seed": spec.seed,
        "level": "exploration",
        "coverage": coverage,
        "assumptions": spec.assumptions,
        "wall_s": started.elapsed().as_secs_f64(),
        "violations": violation_paths.len(),
        "exit_code": exit,
    });
    write_json(&root.join("evidence").join(format!("{}.json", spec.prop)), &ev);
    sut::outln(&format!(
        "{} [{}] seed={} cases={} nontrivial={} excluded={} inconclusive={} violations={} wall={:.1}s exit={}",
        spec.prop,
        spec.tier,
        spec.seed,
        agg.evaluations + regress.executed,
        agg.nontrivial.len(),
        agg.excluded,
        agg.inconclusive_count,
        violation_paths.len(),
        started.elapsed().as_secs_f64(),
        exit
    ));
    exit
}

#[derive(Default)]
pub struct RegressReport {
    pub executed: u64,
    pub violations: Vec<(PathBuf, String)>,
    pub known_confirmed: Vec<(String, String)>,
}

/// Replay every saved regression case of a property (without the library).
pub fn run_regressions(engine: &dyn Engine, prop: &str) -> RegressReport {
    let mut rep = RegressReport::default();
    let known = load_known();
    let dir = verif_root().join("regressions").join(prop);
    let Ok(rd) = std::fs::read_dir(&dir) else { return rep };
    let mut files: Vec<PathBuf> = rd.filter_map(|e| e.ok().map(|e| e.path())).filter(|p| p.extension().map(|e| e == "json").unwrap_or(false)).collect();
    files.sort();
    for p in files {
        let Ok(s) = std::fs::read_to_string(&p) else { continue };
        let Ok(v) = serde_json::from_str::<Value>(&s) else { continue };
        if v["engine"].as_str() != Some(engine.name()) {
            continue;
        }
        let Some(tape) = Tape::from_json(&v["tape"]) else { continue };
        rep.executed += 1;
        let o = engine.eval(&tape);
        for f in o.findings.iter().filter(|f| f.prop == prop) {
            match match_known(&known, f) {
                Some(k) => rep.known_confirmed.push((k.id.clone(), f.msg.clone())),
                None => {
                    rep.violations.push((p.clone(), f.msg.clone()));
                    break;
                }
            }
        }
    }
    rep
}

/// `rsv replay`: re-execute a replay file several times, bypassing the library.
pub fn replay(engine: &dyn Engine, prop: &str, path: &Path, times: u32) -> i32 {
    let s = std::fs::read_to_string(path).expect("read replay file");
    let v: Value = serde_json::from_str(&s).expect("parse replay file");
    let tape = Tape::from_json(&v["tape"]).expect("tape");
    let known = load_known();
    let mut reproduced = 0;
    let mut last = String::new();
    for _ in 0..times {
        let o = engine.eval(&tape);
        let msgs: Vec<&Finding> = o.findings.iter().filter(|f| f.prop == prop && match_known(&known, f).is_none()).collect();
        if let Some(f) = msgs.first() {
            reproduced += 1;
            last = f.msg.clone();
        }
    }
    sut::outln(&format!("reproduced {}/{}", reproduced, times));
    if reproduced > 0 {
        sut::outln(&format!("VIOLATION property={} replay={}", prop, path.display()));
        sut::outln(&format!("  {}", last));
        1
    } else {
        0
    }
}
