//! G-INST: decode a structured tape into a valid problem instance.
//!
//! Soundness: only what README "Input format" documents (unique ids, resolving references,
//! capacity >= seats >= 1, durations >= 1 s, slot end > start, trackCount >= 1, square dead-head
//! matrices with zero diagonal covering every location, consecutive departure segments servable
//! in order with minimal shunting). Every dimension is an independent tape field.

use crate::inst::*;
use crate::tape::*;

pub const S_PARAMS: usize = 0;
pub const S_TYPES: usize = 1;
pub const S_LOCS: usize = 2;
pub const S_DEPOTS: usize = 3;
pub const S_ROUTES: usize = 4;
pub const S_DEPS: usize = 5;
pub const S_SLOTS: usize = 6;
pub const N_INST_SECS: usize = 7;

pub const MAX_LOCS: usize = 5;
pub const MAX_TYPES: usize = 3;
pub const MAX_RSEGS: usize = 3;

#[derive(Clone, Copy, Debug)]
pub struct GenCfg {
    pub max_departures: usize,
    pub max_slots: usize,
    /// 0 = slots as the tape says, 1 = at least one slot
    pub force_slots: bool,
    /// bias towards demand needing several coupled vehicles
    pub heavy_demand: bool,
    /// largest number of vehicles one segment may need
    pub max_need: u64,
    /// budget for the sum over segments of min(need, limit): bounds the fleet (and with it the
    /// run time of the local search, which is roughly cubic in it)
    pub max_total_need: u64,
    /// ids get this prefix (HTTP engine: request number), "" otherwise
    pub single_type: bool,
    /// C12's small sub-family: few ticks, short durations, shunting in {0, 1 tick}, dead-heads in
    /// {0, 1, 3 ticks} so that ties and non-transitive reachability are the rule
    pub small_grid: bool,
    /// bias towards several rotation cycles per type (C16/C04/C05): more tracks per slot, a
    /// maintenance allowance that makes counters negative, default depots at several locations
    pub cycle_rich: bool,
    /// largest number of given depots (several may share a location)
    pub max_depots: usize,
    /// one case in about thirty gets a "giant formation": a segment that needs more than 100
    /// vehicles (100 is the solver's stand-in for an unbounded formation), with type / segment
    /// limits absent or beyond 100. At most three departures and no maintenance slots then, so
    /// that the search stays fast.
    pub giant: bool,
    /// one case in four is a "rush hour": all departures start within two hours, so that few
    /// trips can follow each other and the fleet is as wide as the demand (many vehicles at once)
    pub rush: bool,
}

impl GenCfg {
    pub const fn quick() -> GenCfg {
        GenCfg { max_departures: 8, max_slots: 3, force_slots: false, heavy_demand: false, max_need: 6, max_total_need: 22, single_type: false, small_grid: false, cycle_rich: false, max_depots: 5, giant: false, rush: false }
    }
    pub const fn thorough() -> GenCfg {
        GenCfg { max_departures: 16, max_slots: 4, force_slots: false, heavy_demand: false, max_need: 6, max_total_need: 36, single_type: false, small_grid: false, cycle_rich: false, max_depots: 12, giant: false, rush: false }
    }
}

pub fn inst_specs(cfg: &GenCfg) -> Vec<SecSpec> {
    vec![
        sec(24, 1, 1),                                  // params
        sec(4, 1, if cfg.single_type { 1 } else { MAX_TYPES }), // vehicle types
        sec(2 * MAX_LOCS, 1, MAX_LOCS),                 // locations + their matrix rows
        sec(2 + 2 * MAX_TYPES, 0, cfg.max_depots),      // depots
        sec(3 + 4 * MAX_RSEGS, 1, 4),                   // routes
        sec(3 + 3 * MAX_RSEGS, 1, cfg.max_departures),  // departures
        sec(4, 0, cfg.max_slots),                       // maintenance slots
    ]
}

/// Entity ids. Style 0: plain ("T0", "L1", ...). Style 1: exotic but valid strings -- spaces,
/// non-ASCII letters, ids that are prefixes of one another, ids shared across kinds (a depot
/// named like a location, a slot named like a vehicle type), ids that look like the program's own
/// synthetic names ("depot_...").
pub fn entity_id(kind: char, i: usize, style: usize, prefix: &str) -> String {
    if style == 0 {
        return format!("{}{}{}", prefix, kind, i);
    }
    let pool: &[&str] = match kind {
        'T' => &["IC", "IC 2000", "IC2"],
        'L' => &["Zürich", "Zürich HB", "depot_Zürich", "Z", "Bern (tief)"],
        'D' => &["Zürich", "IC", "depot Bern", "Z", "D 10"],
        'M' => &["IC", "Werkstatt Ost", "Werkstatt", "M"],
        _ => &[],
    };
    match pool.get(i) {
        Some(n) => format!("{}{}", prefix, n),
        None => format!("{}{}{}", prefix, kind, i),
    }
}

pub const BASE_DAY: (i64, i64, i64) = (2024, 2, 28); // crosses Feb 29 of a leap year on day 2
pub const TICK: i64 = 600;

pub fn decode_inst(t: &Tape, cfg: &GenCfg, prefix: &str) -> Inst {
    let base = days_from_civil(BASE_DAY.0, BASE_DAY.1, BASE_DAY.2) * 86400;
    let p: &[u32] = t.sec(S_PARAMS).first().map(|r| r.as_slice()).unwrap_or(&[]);

    let id_style = pick_w(f(p, 20), &[3, 1]);
    // ---- vehicle types
    let mut types = Vec::new();
    let trecs = t.sec(S_TYPES);
    let ntypes = trecs.len().clamp(1, if cfg.cycle_rich { 2 } else { MAX_TYPES });
    for i in 0..ntypes {
        let r: &[u32] = trecs.get(i).map(|r| r.as_slice()).unwrap_or(&[]);
        let capacity = choose(f(r, 0), &[100u64, 10, 1, 7]);
        let seats = match pick(f(r, 1), 3) {
            0 => capacity,
            1 => (capacity / 2).max(1),
            _ => 1,
        };
        let max_form = match pick_w(f(r, 2), &[4, 3, 2, 1, 1]) {
            0 => None,
            1 => Some(1),
            2 => Some(2),
            3 => Some(3),
            _ => Some(4),
        };
        types.push(VType { id: entity_id('T', i, id_style, prefix), capacity, seats, max_form });
    }

    // ---- locations and dead-head matrices
    let lrecs = t.sec(S_LOCS);
    let nlocs = lrecs.len().clamp(1, MAX_LOCS);
    let locs: Vec<String> = (0..nlocs).map(|i| entity_id('L', i, id_style, prefix)).collect();
    let dur_choices = [600u64, 0, 1200, 3600, 10800, 400_000, 50_400];
    let dist_choices = [1000u64, 0, 20_000, 300_000, 2_000_000];
    let symmetric = pick_w(f(p, 15), &[3, 1]) == 0;
    // distances with metre resolution (not only whole kilometres)
    let metre_noise = pick_w(f(p, 14), &[3, 1]) == 1;
    let mut dur = vec![vec![0u64; nlocs]; nlocs];
    let mut dist = vec![vec![0u64; nlocs]; nlocs];
    for i in 0..nlocs {
        let r: &[u32] = lrecs.get(i).map(|r| r.as_slice()).unwrap_or(&[]);
        for j in 0..nlocs {
            if i == j {
                continue;
            }
            if symmetric && j < i {
                dur[i][j] = dur[j][i];
                dist[i][j] = dist[j][i];
            } else {
                dur[i][j] = if cfg.small_grid { choose(f(r, j), &[600u64, 0, 1800]) } else { dur_choices[pick_w(f(r, j), &[6, 2, 4, 3, 2, 1, 1])] };
                dist[i][j] = dist_choices[pick_w(f(r, MAX_LOCS + j), &[6, 1, 4, 3, 1])];
                if metre_noise && dist[i][j] > 0 && dist[i][j] < 1_000_000 {
                    dist[i][j] += 1 + ((i * 7 + j * 13) % 29) as u64;
                }
            }
        }
    }
    // indices may be listed in another order than the locations (the matrix follows the indices)
    let reversed = pick_w(f(p, 16), &[3, 1]) == 1;
    let order: Vec<usize> = if reversed { (0..nlocs).rev().collect() } else { (0..nlocs).collect() };
    let dh_indices: Vec<String> = order.iter().map(|&i| locs[i].clone()).collect();
    let dh_durations: Vec<Vec<u64>> = order.iter().map(|&i| order.iter().map(|&j| dur[i][j]).collect()).collect();
    let dh_distances: Vec<Vec<u64>> = order.iter().map(|&i| order.iter().map(|&j| dist[i][j]).collect()).collect();

    // ---- parameters
    // minimalDuration may exceed a whole detour (dead-head there, short trip, dead-head back):
    // then a same-location turnaround is the slowest connection of all
    let shunt_min = if cfg.small_grid { [0u64, 600, 1800][pick_w(f(p, 1), &[3, 3, 1])] } else { [0u64, 600, 60, 1, 1800, 3600][pick_w(f(p, 1), &[3, 3, 2, 2, 1, 1])] };
    let shunt_dh = if cfg.small_grid { choose(f(p, 2), &[0u64, 600]) } else { choose(f(p, 2), &[0u64, 300, 60]) };
    let forbid = match pick_w(f(p, 0), &[5, 2, 2]) {
        0 => None,
        1 => Some(false),
        _ => Some(true),
    };
    let costs = Costs {
        staff: choose(f(p, 4), &[0u64, 1, 50, 500]),
        service: choose(f(p, 5), &[1u64, 0, 10, 500]),
        maintenance: match pick(f(p, 6), 4) {
            0 => None,
            1 => Some(0),
            2 => Some(1),
            _ => Some(100),
        },
        dead_head: choose(f(p, 7), &[2u64, 0, 1, 20, 500]),
        idle: choose(f(p, 8), &[0u64, 1, 3, 500]),
    };

    // ---- routes
    let rrecs = t.sec(S_ROUTES);
    let nroutes = rrecs.len().clamp(1, 4);
    let mut routes = Vec::new();
    let local_rseg_ids = pick_w(f(p, 19), &[4, 1]) == 1;
    for i in 0..nroutes {
        let r: &[u32] = rrecs.get(i).map(|r| r.as_slice()).unwrap_or(&[]);
        let vt = pick(f(r, 0), ntypes);
        let nseg = 1 + pick_w(f(r, 1), &[5, 3, 1]);
        let mut origin = pick(f(r, 2), nlocs);
        let mut segs = Vec::new();
        for k in 0..nseg {
            let b = 3 + 4 * k;
            let dest = pick(f(r, b), nlocs);
            let duration = if cfg.small_grid { choose(f(r, b + 1), &[600u64, 1200]) } else { choose(f(r, b + 1), &[1800u64, 600, 1200, 3600, 1, 7200]) };
            let distance = choose(f(r, b + 2), &[15_000u64, 1000, 0, 120_000]) + if metre_noise { 1 + ((i * 5 + k * 11) % 17) as u64 } else { 0 };
            let max_form = match pick_w(f(r, b + 3), &[5, 2, 2, 1]) {
                0 => None,
                1 => Some(1),
                2 => Some(2),
                _ => Some(3),
            };
            segs.push(RSeg {
                // route-segment ids are resolved within their route: they need not be unique
                // across routes
                id: if local_rseg_ids { format!("{}S{}", prefix, k) } else { format!("{}R{}S{}", prefix, i, k) },
                order: k as u64,
                origin: locs[origin].clone(),
                destination: locs[dest].clone(),
                distance,
                duration,
                max_form,
            });
            origin = dest;
        }
        let route_id = if id_style == 1 && i < 3 { format!("{}{}", prefix, ["IC", "IC_1", "IC_1_2"][i]) } else { format!("{}R{}", prefix, i) };
        if id_style == 1 && i < 2 {
            // "IC" + "_" + "1_2" == "IC_1" + "_" + "2": ids that collide when joined by '_'
            for (k, sg) in segs.iter_mut().enumerate() {
                sg.id = format!("{}{}", prefix, [["1_2", "1_2_3", "9"], ["2", "2_3", "8"]][i][k.min(2)]);
            }
        }
        routes.push(Route { id: route_id, vtype: types[vt].id.clone(), segs });
    }

    // ---- departures
    let drecs = t.sec(S_DEPS);
    let ndeps = drecs.len().clamp(1, cfg.max_departures.max(1));
    let jitter_mode = pick_w(f(p, 17), &[4, 1]);
    let short_dates = pick_w(f(p, 13), &[3, 1]) == 1;
    let fmt = |t: i64| if short_dates { fmt_time_short(t) } else { fmt_time(t) };
    let rush = cfg.rush && pick_w(f(p, 22), &[3, 1]) == 1;
    let mut departures = Vec::new();
    let mut total_need = 0u64;
    for i in 0..ndeps {
        let r: &[u32] = drecs.get(i).map(|r| r.as_slice()).unwrap_or(&[]);
        let ri = pick(f(r, 0), nroutes);
        let route = &routes[ri];
        let vt = types.iter().find(|x| x.id == route.vtype).unwrap();
        // most departures inside one day so that chains and ties are frequent
        let tick = if cfg.small_grid { pick(f(r, 1), 6) as i64 } else if rush { pick(f(r, 1), 12) as i64 } else { pick(f(r, 1), 108) as i64 + if pick_w(f(r, 2), &[7, 1]) == 1 { 144 } else { 0 } };
        let mut time = base + tick * TICK + if jitter_mode == 1 && !cfg.small_grid { choose(f(r, 2), &[0i64, 1, 59]) } else { 0 };
        // "twin": a second departure at exactly the time of the previous one (identical start and
        // end times of different trips; only the node index orders them)
        if !cfg.small_grid && i > 0 && pick_w(f(r, 2) << 9, &[7, 1]) == 1 {
            if let Some(prev) = departures.last() {
                let prev: &Departure = prev;
                if let Some(t0) = prev.segs.first().and_then(|x| parse_time(&x.departure)) {
                    time = t0;
                }
            }
        }
        // a departure may serve only a part of its route (leading segments skipped)
        let skip = if !cfg.small_grid && route.segs.len() >= 2 && pick_w(f(r, 2) << 13, &[6, 1]) == 1 { 1 } else { 0 };
        let mut segs = Vec::new();
        for (k, rs) in route.segs.iter().enumerate().skip(skip) {
            let b = 3 + 3 * k;
            if k > skip {
                time += shunt_min as i64 + if cfg.small_grid { choose(f(r, b), &[0i64, 600]) } else { choose(f(r, b), &[0i64, 600, 1800]) };
            }
            let need_w: [u32; 5] = if cfg.heavy_demand { [2, 3, 3, 2, 2] } else { [8, 3, 2, 1, 1] };
            let cap = vt.capacity;
            let passengers = match pick_w(f(r, b + 1), &need_w) {
                0 => choose(f(r, b + 1) << 3, &[cap, 1, 0]),
                1 => cap + 1,
                2 => 2 * cap,
                3 => 3 * cap,
                _ => (cfg.max_need - 1) * cap + 1,
            };
            let mut passengers = passengers;
            let mut seated = match pick_w(f(r, b + 2), &[8, 6, 2, 2, 1]) {
                0 => 0,
                1 => vt.seats.min(passengers),
                2 => (vt.seats + 1).min(passengers),
                3 => passengers.min(vt.seats * cfg.max_need),
                // the format does not tie the two figures: more seat reservations than counted
                // passengers (the seats then decide the formation)
                _ => (passengers + vt.seats).min(vt.seats * 2),
            };
            // fleet budget: once it is used up, further segments need one vehicle only
            let lim = match (vt.max_form, rs.max_form) {
                (Some(a), Some(b)) => a.min(b),
                (Some(a), None) => a,
                (None, Some(b)) => b,
                (None, None) => u64::MAX,
            };
            let need = ((passengers.max(1) + cap - 1) / cap).max((seated + vt.seats - 1) / vt.seats);
            if total_need + need.min(lim) > cfg.max_total_need {
                passengers = passengers.min(cap);
                seated = seated.min(vt.seats);
                total_need += 1;
            } else {
                total_need += need.min(lim);
            }
            segs.push(DSeg {
                id: format!("{}P{}S{}", prefix, i, k),
                rseg: rs.id.clone(),
                departure: fmt(time),
                passengers,
                seated,
            });
            time += rs.duration as i64;
        }
        departures.push(Departure { id: format!("{}P{}", prefix, i), route: route.id.clone(), segs });
    }

    // ---- maintenance slots
    let srecs = t.sec(S_SLOTS);
    let mut slot_list = Vec::new();
    let nslots = srecs.len().min(cfg.max_slots).max(if cfg.cycle_rich { 2 } else if cfg.force_slots { 1 } else { 0 });
    for i in 0..nslots {
        let r: &[u32] = srecs.get(i).map(|r| r.as_slice()).unwrap_or(&[]);
        let loc = pick(f(r, 0), nlocs);
        // mostly on the first day; one slot in six a day later (extends the planning horizon)
        let tick = if cfg.small_grid { pick(f(r, 1), 8) as i64 } else { pick(f(r, 1), 144) as i64 + if pick_w(f(r, 1) << 7, &[5, 1]) == 1 { 144 } else { 0 } };
        let duration = if cfg.small_grid { choose(f(r, 2), &[600i64, 1200]) } else { choose(f(r, 2), &[3600i64, 600, 14400]) };
        let tracks = if cfg.cycle_rich { 2 + pick_w(f(r, 3), &[3, 2]) as u64 } else { 1 + pick_w(f(r, 3), &[4, 3, 1]) as u64 };
        slot_list.push(SlotIn {
            id: entity_id('M', i, id_style, prefix),
            location: locs[loc].clone(),
            start: fmt(base + tick * TICK),
            end: fmt(base + tick * TICK + duration),
            tracks,
        });
    }
    let slots = if slot_list.is_empty() {
        match pick(f(p, 9), 2) {
            0 => None,
            _ => Some(Vec::new()),
        }
    } else {
        Some(slot_list)
    };

    // ---- maximal distance between maintenances
    let one_trip = routes.iter().flat_map(|r| r.segs.iter()).map(|s| s.distance).max().unwrap_or(0);
    let all_trips: u64 = departures
        .iter()
        .map(|d| {
            let r = routes.iter().find(|r| r.id == d.route).unwrap();
            r.segs.iter().map(|s| s.distance).sum::<u64>()
        })
        .sum();
    let max_distance = match pick_w(f(p, 3), if cfg.cycle_rich { &[0, 0, 2, 5, 4] } else { &[2, 2, 4, 3, 2] }) {
        0 => None,
        1 => Some(0),
        2 => Some(one_trip + choose(f(p, 3) << 4, &[0u64, 1000, 20_000])),
        3 => Some(all_trips / 2 + 1000),
        _ => Some(1_000_000_000),
    };

    // ---- depots
    let depots = if pick_w(f(p, 10), if cfg.cycle_rich { &[3, 2] } else { &[2, 3] }) == 0 {
        None
    } else {
        let mut out = Vec::new();
        let tiny_depots = pick_w(f(p, 21), &[5, 1]) == 1;
        for (i, r) in t.sec(S_DEPOTS).iter().enumerate().take(cfg.max_depots) {
            let loc = pick(f(r, 0), nlocs);
            // "tiny depots": every depot holds at most one vehicle (capacities bind everywhere)
            let capacity = if tiny_depots { choose(f(r, 1), &[1u64, 0, 1]) } else { choose(f(r, 1), &[3u64, 0, 1, 2, 6, 50, 70_000]) };
            let mut allowed = Vec::new();
            for ty in 0..ntypes {
                match pick_w(f(r, 2 + 2 * ty), &[4, 2, 1, 2, 1, 1]) {
                    0 => allowed.push((types[ty].id.clone(), None)),
                    1 => {} // type not listed
                    2 => allowed.push((types[ty].id.clone(), Some(0))),
                    3 => allowed.push((types[ty].id.clone(), Some(1))),
                    4 => allowed.push((types[ty].id.clone(), Some(2))),
                    _ => allowed.push((types[ty].id.clone(), Some(if f(r, 2 + 2 * ty) & 1 == 1 { 66_000 } else { 5 }))),
                }
            }
            out.push(DepotIn { id: entity_id('D', i, id_style, prefix), location: locs[loc].clone(), capacity, allowed });
        }
        Some(out)
    };

    // ---- giant formation (rare)
    let mut types = types;
    let mut routes = routes;
    let mut departures = departures;
    let mut depots = depots;
    let mut slots = slots;
    if cfg.giant && pick_w(f(p, 22), &[30, 1]) == 1 {
        departures.truncate(3);
        // no maintenance slots: with them the local search on > 100 vehicles takes minutes
        if let Some(sl) = slots.as_mut() {
            sl.clear();
        }
        let g = f(p, 23);
        let rid = departures[0].route.clone();
        let sid = departures[0].segs[0].rseg.clone();
        let route = routes.iter_mut().find(|r| r.id == rid).unwrap();
        let vt = types.iter_mut().find(|x| x.id == route.vtype).unwrap();
        vt.max_form = choose(g, &[None, None, Some(104u64), Some(128)]);
        let rs = route.segs.iter_mut().find(|x| x.id == sid).unwrap();
        rs.max_form = choose(g << 3, &[None, Some(110u64), Some(150), Some(101)]);
        let need = choose(g << 6, &[101u64, 105, 120, 131]);
        let ds = &mut departures[0].segs[0];
        if pick(g << 9, 2) == 0 {
            ds.passengers = need * vt.capacity - (g as u64 % vt.capacity.max(1)).min(vt.capacity - 1);
            ds.seated = ds.seated.min(vt.seats);
        } else {
            // the seats decide
            ds.passengers = vt.capacity;
            ds.seated = need * vt.seats;
        }
        // room for the fleet: default depots, or every given depot wide open
        if pick(g << 10, 2) == 0 {
            depots = None;
        } else if let Some(ds) = depots.as_mut() {
            for d in ds.iter_mut() {
                d.capacity = 70_000;
                for a in d.allowed.iter_mut() {
                    a.1 = None;
                }
            }
        }
    }

    Inst {
        types,
        locs,
        depots,
        routes,
        departures,
        slots,
        dh_indices,
        dh_durations,
        dh_distances,
        forbid,
        shunt_min,
        shunt_dh,
        max_distance,
        costs,
        nulls: pick_w(f(p, 11), &[3, 1]) == 1,
        day_limits: (0..nlocs).map(|i| if pick_w(f(p, 12).rotate_left(i as u32 * 3), &[3, 1]) == 1 { Some(5) } else { None }).collect(),
    }
}

/// "Staggered banks": a family in which the minimum fleet is far more expensive than a fleet with
/// one more vehicle (the two criteria of C14 are in strong conflict). k morning trips a_i: S -> P_i
/// ending at s_i, k evening trips b_j: P_(j-1) -> S starting at s_j + L (+ slack), every dead-head
/// between different locations takes L (16-19 h) except S -> P_0 and P_k -> S. Then a_i can be
/// followed by b_j iff j >= i (slack 0): k vehicles need k dead-heads of L, k + 1 vehicles none.
/// Types, costs and the null flag are kept from the generated instance (the dead-head cost is
/// mostly raised to the largest coefficient).
pub fn make_banks(inst: &mut Inst, g: u32, h: u32) {
    let base = days_from_civil(BASE_DAY.0, BASE_DAY.1, BASE_DAY.2) * 86400;
    let k = 3 + pick(g, 4); // 3..6
    let long = choose(g << 3, &[57_600u64, 64_800, 68_400]);
    let slack = choose(g << 6, &[0i64, 0, 600, 60]);
    let trip = choose(g << 9, &[1800u64, 600, 1]);
    let vt = inst.types[0].clone();
    let mut locs: Vec<String> = vec!["BS".to_string()];
    for i in 0..=k {
        locs.push(format!("BP{}", i));
    }
    let n = locs.len();
    let mut dur = vec![vec![long; n]; n];
    let mut dist = vec![vec![choose(g << 12, &[1000u64, 20_000, 0]); n]; n];
    for i in 0..n {
        dur[i][i] = 0;
        dist[i][i] = 0;
    }
    let short = choose(g << 14, &[600u64, 0, 1200]);
    dur[0][1] = short; // S -> P_0
    dur[n - 1][0] = short; // P_k -> S
    if pick(h, 3) == 0 {
        // the way back too
        dur[1][0] = short;
        dur[0][n - 1] = short;
    }
    let mut routes = Vec::new();
    let mut departures = Vec::new();
    let first = 3600 + 600 * pick(h << 2, 4) as i64;
    for i in 1..=k {
        let s_i = first + 600 * i as i64; // end of a_i
        routes.push(Route {
            id: format!("RA{}", i),
            vtype: vt.id.clone(),
            segs: vec![RSeg { id: format!("RA{}S", i), order: 0, origin: locs[0].clone(), destination: locs[1 + i].clone(), distance: 15_000, duration: trip, max_form: None }],
        });
        departures.push(Departure {
            id: format!("PA{}", i),
            route: format!("RA{}", i),
            segs: vec![DSeg { id: format!("PA{}S0", i), rseg: format!("RA{}S", i), departure: fmt_time(base + s_i - trip as i64), passengers: 1, seated: 0 }],
        });
        routes.push(Route {
            id: format!("RB{}", i),
            vtype: vt.id.clone(),
            segs: vec![RSeg { id: format!("RB{}S", i), order: 0, origin: locs[i].clone(), destination: locs[0].clone(), distance: 15_000, duration: trip, max_form: None }],
        });
        departures.push(Departure {
            id: format!("PB{}", i),
            route: format!("RB{}", i),
            segs: vec![DSeg { id: format!("PB{}S0", i), rseg: format!("RB{}S", i), departure: fmt_time(base + s_i + long as i64 + slack), passengers: 1, seated: 0 }],
        });
    }
    // some of the morning / evening trips need two vehicles
    if pick(h << 5, 3) == 0 {
        let j = pick(h << 8, departures.len());
        departures[j].segs[0].passengers = vt.capacity + 1;
    }
    inst.locs = locs.clone();
    inst.dh_indices = locs;
    inst.dh_durations = dur;
    inst.dh_distances = dist;
    inst.routes = routes;
    inst.departures = departures;
    inst.slots = if inst.nulls { None } else { Some(Vec::new()) };
    inst.depots = None;
    inst.forbid = None;
    inst.shunt_min = choose(h << 11, &[0u64, 0, 600]);
    inst.shunt_dh = 0;
    inst.max_distance = None;
    inst.day_limits = vec![None; n];
    if pick(h << 13, 4) != 0 {
        let c = &mut inst.costs;
        c.dead_head = c.dead_head.max(c.staff).max(c.service).max(c.idle).max(c.maintenance.unwrap_or(0)).max(1);
    }
}

/// Restrict an instance to C14's domain: depot totals do not couple the vehicle types (total
/// capacity >= sum of the per-type capacities; a listed type without own capacity gets one).
pub fn make_uncoupled(inst: &mut Inst) {
    if inst.types.len() <= 1 {
        return;
    }
    if let Some(ds) = inst.depots.as_mut() {
        for d in ds.iter_mut() {
            let mut sum = 0u64;
            for a in d.allowed.iter_mut() {
                let c = a.1.unwrap_or(d.capacity).min(d.capacity);
                a.1 = Some(c);
                sum += c;
            }
            d.capacity = d.capacity.max(sum);
        }
    }
}

/// classes of an instance, measured for evidence (`coverage.classes`)
pub fn inst_classes(fl: &Flat) -> Vec<&'static str> {
    let inst = &fl.inst;
    let mut c = Vec::new();
    c.push(match inst.types.len() {
        1 => "types=1",
        2 => "types=2",
        _ => "types=3",
    });
    let type_lim = inst.types.iter().any(|t| t.max_form.is_some());
    let seg_lim = fl.segs.iter().any(|s| s.seg_limit.is_some());
    c.push(match (type_lim, seg_lim) {
        (true, true) => "limit=type+segment",
        (true, false) => "limit=type_only",
        (false, true) => "limit=segment_only",
        (false, false) => "limit=none",
    });
    if fl.segs.iter().any(|s| s.seg_limit.is_some() && inst.types[s.vtype].max_form.is_none()) {
        c.push("segment_limit_on_unbounded_type");
    }
    c.push(if inst.depots.is_none() { "depots=default" } else if inst.depots.as_ref().unwrap().is_empty() { "depots=empty_list" } else { "depots=given" });
    c.push(if fl.slots.is_empty() { "slots=0" } else if fl.slots.len() == 1 { "slots=1" } else { "slots>=2" });
    if fl.slots.iter().map(|s| s.tracks).sum::<u64>() >= 2 {
        c.push("tracks>=2");
    }
    if inst.shunt_min == 0 {
        c.push("shunt_min=0");
    }
    if inst.shunt_dh == 0 {
        c.push("shunt_dh=0");
    }
    if fl.forbid {
        c.push("forbid_dead_heads");
    }
    if fl.segs.iter().any(|s| s.need >= 2) {
        c.push("need>=2");
    }
    if fl.segs.iter().any(|s| s.seated > s.passengers) {
        c.push("seated>passengers");
    }
    if fl.segs.iter().any(|s| s.lim.map(|l| s.need > l).unwrap_or(false)) {
        c.push("need>limit");
    }
    if inst.types.iter().enumerate().any(|(i, _)| !fl.segs.iter().any(|s| s.vtype == i)) {
        c.push("type_without_trips");
    }
    match inst.max_distance {
        None => c.push("maxdist=absent"),
        Some(0) => c.push("maxdist=0"),
        Some(x) if x >= 1_000_000_000 => c.push("maxdist=huge"),
        _ => c.push("maxdist=finite"),
    }
    // ties: some pair (a,b) with end(a) + turnaround == start(b) exactly
    let acts: Vec<Act> = (0..fl.segs.len()).map(Act::Seg).chain((0..fl.slots.len()).map(Act::Slot)).collect();
    let mut tie = false;
    let mut zero_tie = false;
    for &a in &acts {
        for &b in &acts {
            if a != b && fl.connectable(a, b) {
                let cl = fl.pair_class(a, b);
                if cl.starts_with("tie") {
                    tie = true;
                    if fl.act_end(a) == fl.act_start(b) {
                        zero_tie = true;
                    }
                }
            }
        }
    }
    if tie {
        c.push("tie_pair");
    }
    if zero_tie {
        c.push("back_to_back_zero_turnaround");
    }
    if inst.nulls {
        c.push("null_optionals");
    }
    if inst.departures.iter().any(|d| d.segs.iter().any(|s| s.departure.len() < 19)) {
        c.push("short_date_format");
    }
    if inst.routes.len() >= 2 && inst.routes[0].segs[0].id == inst.routes[1].segs[0].id {
        c.push("route_segment_ids_unique_per_route_only");
    }
    if inst.departures.iter().any(|d| inst.routes.iter().find(|r| r.id == d.route).map(|r| r.segs.len() > d.segs.len()).unwrap_or(false)) {
        c.push("departure_serving_part_of_route");
    }
    {
        let mut firsts: Vec<&str> = inst.departures.iter().filter_map(|d| d.segs.first().map(|x| x.departure.as_str())).collect();
        firsts.sort();
        if firsts.windows(2).any(|w| w[0] == w[1]) {
            c.push("twin_departures_same_time");
        }
    }
    if inst.types.first().map(|t| t.id.ends_with("IC")).unwrap_or(false) {
        c.push("exotic_ids");
    }
    if let Some(ds) = &inst.depots {
        if ds.len() >= 6 {
            c.push("depots>=6");
        }
        if ds.len() >= 3 && ds.iter().all(|d| d.capacity <= 1) {
            c.push("tiny_depots");
        }
    }
    if fl.segs.iter().any(|s| s.need > 100) {
        c.push("giant_formation_need>100");
    }
    if fl.segs.iter().any(|s| s.need > 100 && s.lim.map(|l| l > 100 && s.need > l).unwrap_or(false)) {
        c.push("giant_formation_cut_by_limit>100");
    }
    if inst.day_limits.iter().any(|d| d.is_some()) {
        c.push("day_limit_present");
    }
    c
}
