//! history engine (C09, C10, C13, and the walks of C11): a network plus a history of public
//! schedule modifications, decoded *against the current schedule* (state-dependent decoding).
//! After every successful step: O-SCHED (C09 recomputation, C10 invariants) and the per-operation
//! before/after relation of C13.

use crate::gen_inst::*;
use crate::inst::*;
use crate::ojson::Finding;
use crate::osched;
use crate::refmodel::*;
use crate::runner::{CaseOutcome, Engine};
use crate::sut::{self, Ctx};
use crate::tape::*;
use im::HashMap as ImHashMap;
use model::base_types::{NodeIdx, VehicleIdx, VehicleTypeIdx};
use rayon::iter::ParallelIterator;
use serde_json::{json, Value};
use solution::path::Path;
use solution::segment::Segment;
use solution::transition::Transition;
use solution::Schedule;
use std::collections::{BTreeMap, BTreeSet};

pub const S_OPS: usize = N_INST_SECS;

#[derive(Clone, Debug, PartialEq, Eq)]
pub struct Snap {
    pub vehicles: BTreeMap<VehicleIdx, (usize, Vec<NodeIdx>)>,
    pub dummies: BTreeMap<VehicleIdx, Vec<NodeIdx>>,
    pub formations: BTreeMap<NodeIdx, Vec<VehicleIdx>>,
    pub cycles: Vec<Vec<Vec<VehicleIdx>>>,
    pub tuple: [i64; 4],
}

pub fn snap(cx: &Ctx, s: &Schedule) -> Snap {
    let mut vehicles = BTreeMap::new();
    for (ti, vt) in cx.types.iter().enumerate() {
        for v in s.vehicles_iter(*vt) {
            if let Ok(t) = s.tour_of(v) {
                vehicles.insert(v, (ti, t.all_nodes_iter().collect()));
            }
        }
    }
    let mut dummies = BTreeMap::new();
    for d in s.dummy_iter() {
        if let Ok(t) = s.tour_of(d) {
            dummies.insert(d, t.all_nodes_iter().collect());
        }
    }
    let mut formations = BTreeMap::new();
    for n in cx.node_act.keys() {
        formations.insert(*n, s.train_formation_of(*n).ids());
    }
    let cycles = cx.types.iter().map(|vt| s.next_day_transition_of(*vt).cycles_iter().map(|c| c.get_vec().clone()).collect()).collect();
    Snap { vehicles, dummies, formations, cycles, tuple: cx.tuple(s) }
}

fn acts_of(cx: &Ctx, nodes: &[NodeIdx]) -> Vec<NodeIdx> {
    nodes.iter().copied().filter(|n| !is_depot(cx, *n)).collect()
}
fn services_of(cx: &Ctx, nodes: &[NodeIdx]) -> Vec<NodeIdx> {
    nodes.iter().copied().filter(|n| matches!(cx.node_act.get(n), Some(Act::Seg(_)))).collect()
}
fn names(cx: &Ctx, nodes: &[NodeIdx]) -> Vec<String> {
    nodes.iter().map(|n| cx.node_name(*n)).collect()
}

/// A random chain of the reachability relation among nodes compatible with type `ti`
/// (service trips of the type and maintenance slots), of length 1..=4.
pub fn random_chain(cx: &Ctx, ti: usize, r: &[u32], off: usize) -> Vec<NodeIdx> {
    let fl = &cx.flat;
    let mut cands: Vec<Act> = (0..fl.segs.len()).filter(|i| fl.segs[*i].vtype == ti).map(Act::Seg).collect();
    cands.extend((0..fl.slots.len()).map(Act::Slot));
    cands.sort_by_key(|a| (fl.act_start(*a), fl.act_end(*a), *a));
    if cands.is_empty() {
        return Vec::new();
    }
    let len = 1 + pick_w(f(r, off), &[4, 3, 2, 1]);
    let mut chain = vec![cands[pick(f(r, off + 1), cands.len())]];
    for k in 1..len {
        let last = *chain.last().unwrap();
        let next: Vec<Act> = cands.iter().copied().filter(|b| *b != last && fl.connectable(last, *b)).collect();
        if next.is_empty() {
            break;
        }
        // prefer near successors (so that insertions interleave with existing tours)
        let idx = pick(f(r, off + 1 + k), next.len().min(4));
        chain.push(next[idx]);
    }
    chain.into_iter().map(|a| cx.act_node[&a]).collect()
}

/// Deterministic start fleet: per type, every segment gets min(need, limit) vehicles; a vehicle is
/// appended to the first existing chain of the type whose last activity can be followed by it.
pub fn greedy_chains(cx: &Ctx) -> Vec<(usize, Vec<Act>)> {
    let fl = &cx.flat;
    let mut order: Vec<usize> = (0..fl.segs.len()).collect();
    order.sort_by_key(|i| (fl.segs[*i].dep, fl.segs[*i].arr, *i));
    let mut chains: Vec<(usize, Vec<Act>)> = Vec::new();
    for i in order {
        let mut used: Vec<usize> = Vec::new();
        for _ in 0..fl.required(i) {
            let pos = chains.iter().enumerate().position(|(k, c)| c.0 == fl.segs[i].vtype && !used.contains(&k) && fl.connectable(*c.1.last().unwrap(), Act::Seg(i)));
            match pos {
                Some(k) => {
                    chains[k].1.push(Act::Seg(i));
                    used.push(k);
                }
                None => {
                    chains.push((fl.segs[i].vtype, vec![Act::Seg(i)]));
                    used.push(chains.len() - 1);
                }
            }
        }
    }
    chains
}

pub enum Applied {
    Ok(Schedule),
    Err(String),
    Skipped,
}

pub struct StepReport {
    pub kind: &'static str,
    pub descr: String,
    pub ok: bool,
    pub changed_tours: bool,
    pub class: String,
}

/// Compare formations of one node before/after (C13 order rule).
fn check_formation_order(cx: &Ctx, node: NodeIdx, b0: &[VehicleIdx], a0: &[VehicleIdx], acting: &BTreeSet<VehicleIdx>, op: &str, fs: &mut Vec<Finding>) {
    // A vehicle that receives a node it already serves is, by the three elementary rules, added
    // (tail / replaced position) and its old entry removed; its own position may therefore move.
    // The rule is checked on the other vehicles.
    let re_added: Vec<VehicleIdx> = acting.iter().copied().filter(|v| b0.contains(v) && a0.contains(v)).collect();
    let b: Vec<VehicleIdx> = b0.iter().copied().filter(|v| !re_added.contains(v)).collect();
    let a: Vec<VehicleIdx> = a0.iter().copied().filter(|v| !re_added.contains(v)).collect();
    let (b, a) = (&b[..], &a[..]);
    if !re_added.is_empty() && a0.iter().filter(|v| re_added.contains(v)).count() != re_added.len() {
        fs.push(Finding { prop: "C13", msg: format!("{}: formation of {} lists a vehicle twice: {:?}", op, cx.node_name(node), a0) });
    }
    let removed: Vec<VehicleIdx> = b.iter().copied().filter(|v| !a.contains(v)).collect();
    let added: Vec<VehicleIdx> = a.iter().copied().filter(|v| !b.contains(v)).collect();
    let kept_b: Vec<VehicleIdx> = b.iter().copied().filter(|v| a.contains(v)).collect();
    let kept_a: Vec<VehicleIdx> = a.iter().copied().filter(|v| b.contains(v)).collect();
    if kept_a != kept_b {
        fs.push(Finding { prop: "C13", msg: format!("{}: formation of {} changed the relative order of remaining vehicles: {:?} -> {:?}", op, cx.node_name(node), b, a) });
        return;
    }
    if removed.len() == 1 && added.len() == 1 {
        let pb = b.iter().position(|v| *v == removed[0]);
        let pa = a.iter().position(|v| *v == added[0]);
        if pa != pb {
            fs.push(Finding { prop: "C13", msg: format!("{}: in the formation of {} the replacing vehicle {} does not take the position of the replaced {}: {:?} -> {:?}", op, cx.node_name(node), added[0], removed[0], b, a) });
        }
    } else if !added.is_empty() {
        // additions go to the tail
        let tail = &a[a.len() - added.len()..];
        if tail.iter().any(|v| !added.contains(v)) {
            fs.push(Finding { prop: "C13", msg: format!("{}: formation of {}: added vehicles are not at the tail: {:?} -> {:?}", op, cx.node_name(node), b, a) });
        }
    }
}

/// relation shared by all operations: vehicles / dummies not named keep their tours, formations
/// of nodes in no touched tour stay identical (incl. order), formation order rule elsewhere
fn check_frame(cx: &Ctx, before: &Snap, after: &Snap, touched: &BTreeSet<VehicleIdx>, op: &str, fs: &mut Vec<Finding>) {
    for (v, (t, nodes)) in &before.vehicles {
        if touched.contains(v) {
            continue;
        }
        match after.vehicles.get(v) {
            Some((t2, n2)) if t2 == t && n2 == nodes => {}
            other => fs.push(Finding { prop: "C13", msg: format!("{}: vehicle {} is not named by the operation but its tour changed: {:?} -> {:?}", op, v, names(cx, nodes), other.map(|x| names(cx, &x.1))) }),
        }
    }
    for (d, nodes) in &before.dummies {
        if touched.contains(d) {
            continue;
        }
        if after.dummies.get(d) != Some(nodes) {
            fs.push(Finding { prop: "C13", msg: format!("{}: dummy {} is not named by the operation but its tour changed: {:?} -> {:?}", op, d, names(cx, nodes), after.dummies.get(d).map(|x| names(cx, x))) });
        }
    }
    let mut touched_nodes: BTreeSet<NodeIdx> = BTreeSet::new();
    for v in touched {
        for snapx in [before, after] {
            if let Some((_, n)) = snapx.vehicles.get(v) {
                touched_nodes.extend(n.iter().copied());
            }
            if let Some(n) = snapx.dummies.get(v) {
                touched_nodes.extend(n.iter().copied());
            }
        }
    }
    // vehicles / dummies that exist only after the call (fresh ids) are results of the operation
    for (v, (_, n)) in &after.vehicles {
        if !before.vehicles.contains_key(v) {
            touched_nodes.extend(n.iter().copied());
        }
    }
    for (n, fb) in &before.formations {
        let fa = &after.formations[n];
        if !touched_nodes.contains(n) {
            if fa != fb {
                fs.push(Finding { prop: "C13", msg: format!("{}: formation of {} (in no touched tour) changed: {:?} -> {:?}", op, cx.node_name(*n), fb, fa) });
            }
        } else if fa != fb {
            check_formation_order(cx, *n, fb, fa, touched, op, fs);
        }
    }
}

/// service-trip conservation: every service trip in some real or dummy tour before is in some
/// real or dummy tour after, or in the returned conflict path
fn check_conservation(cx: &Ctx, before: &Snap, after: &Snap, returned: &[NodeIdx], op: &str, fs: &mut Vec<Finding>) {
    let collect = |s: &Snap| -> BTreeSet<NodeIdx> {
        let mut set = BTreeSet::new();
        for (_, n) in s.vehicles.values() {
            set.extend(services_of(cx, n));
        }
        for n in s.dummies.values() {
            set.extend(services_of(cx, n));
        }
        set
    };
    let b = collect(before);
    let mut a = collect(after);
    a.extend(services_of(cx, returned));
    let lost: Vec<NodeIdx> = b.difference(&a).copied().collect();
    if !lost.is_empty() {
        fs.push(Finding { prop: "C13", msg: format!("{}: service trips {:?} were in a tour before and are neither in a real or dummy tour nor handed back afterwards", op, names(cx, &lost)) });
    }
}

fn depot_only_relation(cx: &Ctx, before: &Snap, after: &Snap, op: &str, fs: &mut Vec<Finding>) {
    let bv: Vec<_> = before.vehicles.iter().map(|(v, (t, n))| (*v, *t, acts_of(cx, n))).collect();
    let av: Vec<_> = after.vehicles.iter().map(|(v, (t, n))| (*v, *t, acts_of(cx, n))).collect();
    if bv != av {
        fs.push(Finding { prop: "C13", msg: format!("{}: a depot-only operation changed vehicles or activities", op) });
    }
    if before.dummies != after.dummies {
        fs.push(Finding { prop: "C13", msg: format!("{}: a depot-only operation changed dummy tours", op) });
    }
    if before.formations != after.formations {
        fs.push(Finding { prop: "C13", msg: format!("{}: a depot-only operation changed formations", op) });
    }
}

pub struct HistoryEngine {
    pub prop: String,
    pub cfg: GenCfg,
    pub max_ops: usize,
    pub walk: bool, // C11: neighbourhood walks instead of API histories
    pub max_levels: usize,
}

impl HistoryEngine {
    pub fn new(prop: &str, tier: &str) -> HistoryEngine {
        let thorough = tier == "thorough";
        let mut cfg = if thorough { GenCfg::thorough() } else { GenCfg::quick() };
        cfg.max_departures = if thorough { 8 } else { 7 };
        cfg.max_total_need = if thorough { 16 } else { 14 };
        cfg.max_need = 3;
        let walk = prop == "C11";
        if walk {
            cfg.force_slots = true;
            cfg.max_departures = if thorough { 6 } else { 4 };
            cfg.max_total_need = if thorough { 10 } else { 7 };
        }
        HistoryEngine { prop: prop.to_string(), cfg, max_ops: if thorough { 40 } else { 24 }, walk, max_levels: if thorough { 12 } else { 5 } }
    }
}

/// position pair -> Segment over a node list
fn seg_of(nodes: &[NodeIdx], i: usize, j: usize) -> Segment {
    Segment::new(nodes[i], nodes[j])
}

/// A segment of a tour by positions. Real tours: the segment always contains at least one
/// activity (a segment consisting of a depot only is passed by no caller and documented as
/// 'unexpected behavior').
fn pick_segment(nodes: &[NodeIdx], r: &[u32], off: usize, dummy: bool) -> (usize, usize) {
    let n = nodes.len();
    if dummy || n < 3 {
        let i = pick(f(r, off), n);
        let j = i + pick(f(r, off + 1), n - i);
        return (i, j);
    }
    // real tour: mostly activity-bounded segments, sometimes touching a depot
    let mode = pick_w(f(r, off + 2), &[6, 1, 1, 1]);
    match mode {
        0 => {
            let i = 1 + pick(f(r, off), n - 2);
            let j = i + pick(f(r, off + 1), n - 1 - i);
            (i, j)
        }
        1 => (0, 1 + pick(f(r, off + 1), n - 1)), // from the start depot
        2 => (1 + pick(f(r, off), n - 2), n - 1), // to the end depot
        _ => (0, n - 1),                       // whole tour with both depots
    }
}

impl HistoryEngine {
    fn start_schedule(&self, cx: &Ctx, p: &[u32]) -> Result<Schedule, sut::PanicInfo> {
        // The start schedule is built by the harness itself (greedy first-fit chains, spawned
        // through the public API) so that it is a pure function of the tape: the min-cost-flow
        // solver's output depends on HashMap iteration order and would make histories flaky.
        let mode = if self.walk { 0 } else { pick_w(f(p, 18), &[3, 1]) };
        let net = cx.net.clone();
        sut::catch(move || {
            let mut s = Schedule::empty(net);
            if mode == 0 {
                for chain in greedy_chains(cx) {
                    let ti = chain.0;
                    let nodes: Vec<NodeIdx> = chain.1.iter().map(|a| cx.act_node[a]).collect();
                    if let Ok((next, _)) = s.spawn_vehicle_for_path(cx.types[ti], nodes) {
                        s = next;
                    }
                }
            }
            s
        })
    }

    /// Apply one operation record to `cur`. Returns the report and the new schedule (if any).
    #[allow(clippy::too_many_lines)]
    fn step(&self, cx: &Ctx, cur: &Schedule, r: &[u32], fs: &mut Vec<Finding>) -> (StepReport, Option<Schedule>) {
        let before = snap(cx, cur);
        let reals: Vec<VehicleIdx> = before.vehicles.keys().copied().collect();
        let dummies: Vec<VehicleIdx> = before.dummies.keys().copied().collect();
        let kind = pick_w(f(r, 0), &[5, 2, 2, 4, 3, 5, 5, 2, 1, 1, 1, 1]);
        let ntypes = cx.types.len();
        let mut rep = StepReport { kind: "", descr: String::new(), ok: false, changed_tours: false, class: String::new() };
        let mut touched: BTreeSet<VehicleIdx> = BTreeSet::new();
        let mut returned: Vec<NodeIdx> = Vec::new();
        // the relation check that needs the operation's arguments runs after the call
        let mut post: Vec<Box<dyn Fn(&Snap, &Snap, &mut Vec<Finding>) + '_>> = Vec::new();

        let result: Result<Applied, sut::PanicInfo> = match kind {
            // ------------------------------------------------------------ spawn_vehicle_for_path
            0 => {
                rep.kind = "spawn_vehicle_for_path";
                let ti = pick(f(r, 1), ntypes);
                let mut path = random_chain(cx, ti, r, 2);
                if path.is_empty() {
                    return (rep, None);
                }
                let wrong_type = pick_w(f(r, 7), &[15, 1]) == 1 && ntypes > 1;
                let vt_i = if wrong_type { (ti + 1) % ntypes } else { ti };
                let with_start = pick_w(f(r, 8), &[3, 2, 1]);
                let nd = cx.depots.len();
                let given_start = match with_start {
                    1 => Some(pick(f(r, 9), nd - 1)),
                    2 => Some(nd - 1),
                    _ => None,
                };
                let given_end = match (given_start, pick_w(f(r, 10), &[2, 2, 1])) {
                    (Some(_), 0) => None,
                    (_, 1) => Some(pick(f(r, 11), nd - 1)),
                    (_, 2) => Some(nd - 1),
                    _ => None,
                };
                if let Some(d) = given_start {
                    path.insert(0, cx.depots[d].1);
                }
                if let Some(d) = given_end {
                    path.push(cx.depots[d].2);
                }
                rep.descr = format!("spawn type {} path {:?}", vt_i, names(cx, &path));
                rep.class = format!("spawn/start={}/end={}", given_start.map(|d| if d == nd - 1 { "overflow" } else { "given" }).unwrap_or("none"), given_end.map(|d| if d == nd - 1 { "overflow" } else { "given" }).unwrap_or("none"));
                let vt = cx.types[vt_i];
                let path2 = path.clone();
                let start_free = given_start.map(|d| cur.can_depot_spawn_vehicle(cx.depots[d].1, vt));
                post.push(Box::new(move |b: &Snap, a: &Snap, fs: &mut Vec<Finding>| {
                    let fresh: Vec<&VehicleIdx> = a.vehicles.keys().filter(|v| !b.vehicles.contains_key(v)).collect();
                    if fresh.len() != 1 || b.dummies.contains_key(fresh[0]) {
                        fs.push(Finding { prop: "C13", msg: format!("spawn_vehicle_for_path: expected exactly one fresh vehicle id, got {:?}", fresh) });
                        return;
                    }
                    let (t, nodes) = &a.vehicles[fresh[0]];
                    if *t != vt_i {
                        fs.push(Finding { prop: "C13", msg: format!("spawn_vehicle_for_path: new vehicle has type {} instead of {}", t, vt_i) });
                    }
                    if acts_of(cx, nodes) != acts_of(cx, &path2) {
                        fs.push(Finding { prop: "C13", msg: format!("spawn_vehicle_for_path({:?}): the new tour {:?} does not consist of exactly the path's activities", names(cx, &path2), names(cx, nodes)) });
                    }
                    // depot substitution as documented
                    let ov = cx.depots[cx.depots.len() - 1];
                    match (given_start, start_free) {
                        (Some(d), Some(true)) => {
                            if nodes[0] != cx.depots[d].1 {
                                fs.push(Finding { prop: "C13", msg: format!("spawn_vehicle_for_path: given start depot {} is available but the tour starts at {}", cx.flat.depots[d].id, cx.node_name(nodes[0])) });
                            }
                            if let Some(e) = given_end {
                                if *nodes.last().unwrap() != cx.depots[e].2 {
                                    fs.push(Finding { prop: "C13", msg: format!("spawn_vehicle_for_path: given end depot {} was replaced by {}", cx.flat.depots[e].id, cx.node_name(*nodes.last().unwrap())) });
                                }
                            }
                        }
                        (Some(_), Some(false)) => {
                            if nodes[0] != ov.1 || *nodes.last().unwrap() != ov.2 {
                                fs.push(Finding { prop: "C13", msg: format!("spawn_vehicle_for_path: given start depot is not available, documented substitute is the overflow depot pair, got {:?}", names(cx, nodes)) });
                            }
                        }
                        _ => {
                            if let Some(e) = given_end {
                                if *nodes.last().unwrap() != cx.depots[e].2 {
                                    fs.push(Finding { prop: "C13", msg: format!("spawn_vehicle_for_path: given end depot {} was replaced by {}", cx.flat.depots[e].id, cx.node_name(*nodes.last().unwrap())) });
                                }
                            }
                        }
                    }
                }));
                sut::catch(|| match cur.spawn_vehicle_for_path(vt, path.clone()) {
                    Ok((s, _)) => Applied::Ok(s),
                    Err(e) => Applied::Err(e),
                })
            }
            // ------------------------------------------------------------ spawn to replace dummy
            1 => {
                rep.kind = "spawn_vehicle_to_replace_dummy_tour";
                if dummies.is_empty() {
                    return (rep, None);
                }
                let d = dummies[pick(f(r, 1), dummies.len())];
                let dn = before.dummies[&d].clone();
                let ti = dn.iter().find_map(|n| match cx.node_act.get(n) {
                    Some(Act::Seg(i)) => Some(cx.flat.segs[*i].vtype),
                    _ => None,
                });
                let ti = match (ti, pick_w(f(r, 2), &[12, 1])) {
                    (Some(t), 0) => t,
                    (Some(t), _) => (t + 1) % ntypes,
                    (None, _) => pick(f(r, 2), ntypes),
                };
                touched.insert(d);
                rep.descr = format!("replace dummy {} {:?} by vehicle of type {}", d, names(cx, &dn), ti);
                rep.class = "spawn_for_dummy".into();
                post.push(Box::new(move |b: &Snap, a: &Snap, fs: &mut Vec<Finding>| {
                    if a.dummies.contains_key(&d) {
                        fs.push(Finding { prop: "C13", msg: format!("spawn_vehicle_to_replace_dummy_tour: dummy {} still exists", d) });
                    }
                    let fresh: Vec<&VehicleIdx> = a.vehicles.keys().filter(|v| !b.vehicles.contains_key(v)).collect();
                    if fresh.len() != 1 {
                        fs.push(Finding { prop: "C13", msg: format!("spawn_vehicle_to_replace_dummy_tour: expected one fresh vehicle, got {:?}", fresh) });
                        return;
                    }
                    if acts_of(cx, &a.vehicles[fresh[0]].1) != acts_of(cx, &dn) {
                        fs.push(Finding { prop: "C13", msg: format!("spawn_vehicle_to_replace_dummy_tour: new tour {:?} != dummy tour {:?}", names(cx, &a.vehicles[fresh[0]].1), names(cx, &dn)) });
                    }
                }));
                sut::catch(|| match cur.spawn_vehicle_to_replace_dummy_tour(d, cx.types[ti]) {
                    Ok((s, _)) => Applied::Ok(s),
                    Err(e) => Applied::Err(e),
                })
            }
            // ------------------------------------------------------------ replace_vehicle_by_dummy
            2 => {
                rep.kind = "replace_vehicle_by_dummy";
                let invalid = pick_w(f(r, 2), &[12, 1]) == 1;
                let v = if invalid || reals.is_empty() {
                    if dummies.is_empty() {
                        VehicleIdx::vehicle_from(60000)
                    } else {
                        dummies[pick(f(r, 1), dummies.len())]
                    }
                } else {
                    reals[pick(f(r, 1), reals.len())]
                };
                touched.insert(v);
                rep.descr = format!("replace {} by dummy", v);
                rep.class = "delete_vehicle".into();
                let old = before.vehicles.get(&v).map(|x| x.1.clone()).unwrap_or_default();
                post.push(Box::new(move |b: &Snap, a: &Snap, fs: &mut Vec<Finding>| {
                    if a.vehicles.contains_key(&v) {
                        fs.push(Finding { prop: "C13", msg: format!("replace_vehicle_by_dummy: vehicle {} still exists", v) });
                    }
                    let fresh: Vec<&VehicleIdx> = a.dummies.keys().filter(|d| !b.dummies.contains_key(d)).collect();
                    let want = services_of(cx, &old);
                    let got: Vec<NodeIdx> = fresh.iter().flat_map(|d| a.dummies[*d].clone()).collect();
                    if got != want || fresh.len() != usize::from(!want.is_empty()) {
                        fs.push(Finding { prop: "C13", msg: format!("replace_vehicle_by_dummy({}): removed service trips {:?} != nodes of the new dummy tour(s) {:?}", v, names(cx, &want), names(cx, &got)) });
                    }
                }));
                sut::catch(|| match cur.replace_vehicle_by_dummy(v) {
                    Ok(s) => Applied::Ok(s),
                    Err(e) => Applied::Err(e),
                })
            }
            // ------------------------------------------------------------ add_path_to_vehicle_tour
            3 => {
                rep.kind = "add_path_to_vehicle_tour";
                if reals.is_empty() {
                    return (rep, None);
                }
                let v = reals[pick(f(r, 1), reals.len())];
                let (ti, tour) = before.vehicles[&v].clone();
                let wrong_type = pick_w(f(r, 7), &[15, 1]) == 1 && ntypes > 1;
                let mut path = random_chain(cx, if wrong_type { (ti + 1) % ntypes } else { ti }, r, 2);
                if path.is_empty() {
                    return (rep, None);
                }
                let nd = cx.depots.len();
                match pick_w(f(r, 8), &[5, 1, 1]) {
                    1 => path.insert(0, cx.depots[pick(f(r, 9), nd)].1),
                    2 => path.push(cx.depots[pick(f(r, 9), nd)].2),
                    _ => {}
                }
                touched.insert(v);
                rep.descr = format!("add path {:?} to {} {:?}", names(cx, &path), v, names(cx, &tour));
                rep.class = "add_path".into();
                let p2 = path.clone();
                let pathobj = match Path::new(path.clone(), cx.net.clone()) {
                    Ok(Some(p)) => p,
                    other => {
                        fs.push(Finding { prop: "C12", msg: format!("Path::new rejects a chain of the reachability relation {:?}: {:?}", names(cx, &path), other.map(|_| ()).err()) });
                        return (rep, None);
                    }
                };
                let res = sut::catch(|| cur.add_path_to_vehicle_tour(v, pathobj));
                match res {
                    Ok(Ok((s, conflict))) => {
                        let conflict: Vec<NodeIdx> = conflict.map(|p| p.iter().collect()).unwrap_or_default();
                        returned = conflict.clone();
                        post.push(Box::new(move |_b: &Snap, a: &Snap, fs: &mut Vec<Finding>| {
                            let (want, dropped) = r_insert(cx, &tour, &p2, false);
                            match a.vehicles.get(&v) {
                                Some((_, got)) if *got == want => {}
                                other => fs.push(Finding { prop: "C13", msg: format!("add_path_to_vehicle_tour: tour of {} is {:?}, reference insert of {:?} into {:?} gives {:?}", v, other.map(|x| names(cx, &x.1)), names(cx, &p2), names(cx, &tour), names(cx, &want)) }),
                            }
                            if acts_of(cx, &conflict) != acts_of(cx, &dropped) {
                                fs.push(Finding { prop: "C13", msg: format!("add_path_to_vehicle_tour: returned conflict {:?} != dropped activities {:?}", names(cx, &conflict), names(cx, &dropped)) });
                            }
                        }));
                        Ok(Applied::Ok(s))
                    }
                    Ok(Err(e)) => Ok(Applied::Err(e)),
                    Err(p) => Err(p),
                }
            }
            // ------------------------------------------------------------ remove_segment
            4 => {
                rep.kind = "remove_segment";
                if reals.is_empty() {
                    return (rep, None);
                }
                let v = reals[pick(f(r, 1), reals.len())];
                let tour = before.vehicles[&v].1.clone();
                let (i, j) = pick_segment(&tour, r, 2, false);
                touched.insert(v);
                rep.descr = format!("remove [{}..={}] from {} {:?}", i, j, v, names(cx, &tour));
                rep.class = format!("remove_segment/{}", if i == 0 || j == tour.len() - 1 { "with_depot" } else { "inner" });
                let seg = seg_of(&tour, i, j);
                let expect = r_remove(cx, &tour, i, j, false);
                let removed_services = services_of(cx, &tour[i..=j]);
                post.push(Box::new(move |b: &Snap, a: &Snap, fs: &mut Vec<Finding>| {
                    match &expect {
                        Ok(None) => {
                            if a.vehicles.contains_key(&v) {
                                fs.push(Finding { prop: "C13", msg: format!("remove_segment: vehicle {} lost all activities but still exists", v) });
                            }
                        }
                        Ok(Some(rest)) => match a.vehicles.get(&v) {
                            Some((_, got)) if got == rest => {}
                            other => fs.push(Finding { prop: "C13", msg: format!("remove_segment: tour of {} is {:?}, expected {:?}", v, other.map(|x| names(cx, &x.1)), names(cx, rest)) }),
                        },
                        Err(why) => fs.push(Finding { prop: "C13", msg: format!("remove_segment succeeded although the reference refuses it ({})", why) }),
                    }
                    let want: Vec<NodeIdx> = if expect == Ok(None) { services_of(cx, &tour) } else { removed_services.clone() };
                    let fresh: Vec<&VehicleIdx> = a.dummies.keys().filter(|d| !b.dummies.contains_key(d)).collect();
                    let got: Vec<NodeIdx> = fresh.iter().flat_map(|d| a.dummies[*d].clone()).collect();
                    if got != want {
                        fs.push(Finding { prop: "C13", msg: format!("remove_segment: removed service trips {:?} != nodes of the new dummy {:?}", names(cx, &want), names(cx, &got)) });
                    }
                }));
                sut::catch(|| match cur.remove_segment(seg, v) {
                    Ok(s) => Applied::Ok(s),
                    Err(e) => Applied::Err(e),
                })
            }
            // ------------------------------------------------------------ fit / override reassign
            5 | 6 => {
                rep.kind = if kind == 5 { "fit_reassign" } else { "override_reassign" };
                let all: Vec<VehicleIdx> = reals.iter().chain(dummies.iter()).copied().collect();
                if all.len() < 2 {
                    return (rep, None);
                }
                // bias towards dummy participants when there are any
                let pi = pick(f(r, 1), all.len());
                let provider = all[pi];
                let others: Vec<VehicleIdx> = all.iter().copied().filter(|v| *v != provider).collect();
                let receiver = others[pick(f(r, 2), others.len())];
                let ptour: Vec<NodeIdx> = before.vehicles.get(&provider).map(|x| x.1.clone()).unwrap_or_else(|| before.dummies[&provider].clone());
                let rtour: Vec<NodeIdx> = before.vehicles.get(&receiver).map(|x| x.1.clone()).unwrap_or_else(|| before.dummies[&receiver].clone());
                let pdummy = provider.is_dummy();
                let rdummy = receiver.is_dummy();
                let (i, j) = pick_segment(&ptour, r, 3, pdummy);
                let seg = seg_of(&ptour, i, j);
                touched.insert(provider);
                touched.insert(receiver);
                rep.descr = format!("{} [{}..={}] of {} {:?} -> {} {:?}", rep.kind, i, j, provider, names(cx, &ptour), receiver, names(cx, &rtour));
                rep.class = format!("{}/{}->{}/{}", rep.kind, if pdummy { "dummy" } else { "real" }, if rdummy { "dummy" } else { "real" }, if !pdummy && (i == 0 || j == ptour.len() - 1) { "with_depot" } else { "inner" });
                let segment_nodes: Vec<NodeIdx> = ptour[i..=j].to_vec();
                if kind == 5 {
                    let (pt, rt, sn) = (ptour.clone(), rtour.clone(), segment_nodes.clone());
                    post.push(Box::new(move |_b: &Snap, a: &Snap, fs: &mut Vec<Finding>| {
                        let pa: Vec<NodeIdx> = a.vehicles.get(&provider).map(|x| x.1.clone()).or_else(|| a.dummies.get(&provider).cloned()).unwrap_or_default();
                        let ra: Vec<NodeIdx> = a.vehicles.get(&receiver).map(|x| x.1.clone()).or_else(|| a.dummies.get(&receiver).cloned()).unwrap_or_default();
                        let pb_acts: BTreeSet<NodeIdx> = acts_of(cx, &pt).into_iter().collect();
                        let pa_acts: BTreeSet<NodeIdx> = acts_of(cx, &pa).into_iter().collect();
                        let rb_acts: BTreeSet<NodeIdx> = acts_of(cx, &rt).into_iter().collect();
                        let ra_acts: BTreeSet<NodeIdx> = acts_of(cx, &ra).into_iter().collect();
                        let moved: BTreeSet<NodeIdx> = pb_acts.difference(&pa_acts).copied().collect();
                        if !pa_acts.is_subset(&pb_acts) {
                            fs.push(Finding { prop: "C13", msg: format!("fit_reassign: provider {} gained activities: {:?} -> {:?}", provider, names(cx, &pt), names(cx, &pa)) });
                        }
                        let seg_acts: BTreeSet<NodeIdx> = acts_of(cx, &sn).into_iter().collect();
                        if !moved.is_subset(&seg_acts) {
                            fs.push(Finding { prop: "C13", msg: format!("fit_reassign: provider {} lost activities outside the segment: moved {:?}, segment {:?}", provider, names(cx, &moved.iter().copied().collect::<Vec<_>>()), names(cx, &sn)) });
                        }
                        if !rb_acts.is_subset(&ra_acts) {
                            fs.push(Finding { prop: "C13", msg: format!("fit_reassign: receiver {} lost own activities: {:?} -> {:?}", receiver, names(cx, &rt), names(cx, &ra)) });
                        }
                        let want: BTreeSet<NodeIdx> = rb_acts.union(&moved).copied().collect();
                        // a dummy receiver never takes depots; maintenance slots may be taken
                        if ra_acts != want {
                            fs.push(Finding { prop: "C13", msg: format!("fit_reassign: receiver {} has {:?}, expected its own activities plus the moved ones {:?}", receiver, names(cx, &ra), names(cx, &want.iter().copied().collect::<Vec<_>>())) });
                        }
                        if pa_acts.is_empty() != (!a.vehicles.contains_key(&provider) && !a.dummies.contains_key(&provider)) {
                            fs.push(Finding { prop: "C13", msg: format!("fit_reassign: provider {} must disappear exactly if no activity is left", provider) });
                        }
                    }));
                    sut::catch(|| match cur.fit_reassign(seg, provider, receiver) {
                        Ok(s) => Applied::Ok(s),
                        Err(e) => Applied::Err(e),
                    })
                } else {
                    let res = sut::catch(|| cur.override_reassign(seg, provider, receiver));
                    match res {
                        Ok(Ok((s, new_dummy))) => {
                            let (pt, rt, sn) = (ptour.clone(), rtour.clone(), segment_nodes.clone());
                            let expect_p = r_remove(cx, &ptour, i, j, pdummy);
                            post.push(Box::new(move |b: &Snap, a: &Snap, fs: &mut Vec<Finding>| {
                                let pa: Option<Vec<NodeIdx>> = a.vehicles.get(&provider).map(|x| x.1.clone()).or_else(|| a.dummies.get(&provider).cloned());
                                match &expect_p {
                                    Ok(None) => {
                                        if pa.is_some() {
                                            fs.push(Finding { prop: "C13", msg: format!("override_reassign: provider {} lost all activities but still exists", provider) });
                                        }
                                    }
                                    Ok(Some(rest)) => {
                                        if pa.as_ref() != Some(rest) {
                                            fs.push(Finding { prop: "C13", msg: format!("override_reassign: provider {} is {:?}, expected {:?} (it loses exactly the moved nodes)", provider, pa.as_ref().map(|x| names(cx, x)), names(cx, rest)) });
                                        }
                                    }
                                    Err(why) => fs.push(Finding { prop: "C13", msg: format!("override_reassign succeeded although removing the segment from the provider is refused by the reference ({}); provider {:?} segment {:?}", why, names(cx, &pt), names(cx, &sn)) }),
                                }
                                let (want, dropped) = r_insert(cx, &rt, &sn, rdummy);
                                let ra: Option<Vec<NodeIdx>> = a.vehicles.get(&receiver).map(|x| x.1.clone()).or_else(|| a.dummies.get(&receiver).cloned());
                                if ra.as_ref() != Some(&want) {
                                    fs.push(Finding { prop: "C13", msg: format!("override_reassign: receiver {} is {:?}, reference insert of {:?} into {:?} gives {:?}", receiver, ra.as_ref().map(|x| names(cx, x)), names(cx, &sn), names(cx, &rt), names(cx, &want)) });
                                }
                                let want_dummy = services_of(cx, &dropped);
                                let got_dummy: Vec<NodeIdx> = new_dummy.and_then(|d| a.dummies.get(&d).cloned()).unwrap_or_default();
                                if got_dummy != want_dummy || new_dummy.is_some() != !want_dummy.is_empty() || new_dummy.map(|d| b.dummies.contains_key(&d) || b.vehicles.contains_key(&d)).unwrap_or(false) {
                                    fs.push(Finding { prop: "C13", msg: format!("override_reassign: displaced service trips {:?} != nodes of the returned new dummy {:?} ({:?})", names(cx, &want_dummy), names(cx, &got_dummy), new_dummy) });
                                }
                            }));
                            Ok(Applied::Ok(s))
                        }
                        Ok(Err(e)) => Ok(Applied::Err(e)),
                        Err(p) => Err(p),
                    }
                }
            }
            // ------------------------------------------------------------ improve_depots
            7 => {
                rep.kind = "improve_depots";
                let subset = pick_w(f(r, 1), &[1, 2]) == 1 && !reals.is_empty();
                let arg = if subset {
                    let mut vs: Vec<VehicleIdx> = Vec::new();
                    for k in 0..(1 + pick(f(r, 2), 3)) {
                        let v = reals[pick(f(r, 3 + k), reals.len())];
                        if !vs.contains(&v) {
                            vs.push(v);
                        }
                    }
                    Some(vs)
                } else {
                    None
                };
                rep.descr = format!("improve_depots({:?})", arg);
                rep.class = "depot_only".into();
                match &arg {
                    Some(vs) => touched.extend(vs.iter().copied()),
                    None => touched.extend(reals.iter().copied()),
                }
                post.push(Box::new(move |b: &Snap, a: &Snap, fs: &mut Vec<Finding>| depot_only_relation(cx, b, a, "improve_depots", fs)));
                sut::catch(|| Applied::Ok(cur.improve_depots(arg.clone())))
            }
            8 => {
                rep.kind = "reassign_end_depots_greedily";
                rep.descr = rep.kind.into();
                rep.class = "depot_only".into();
                touched.extend(reals.iter().copied());
                post.push(Box::new(move |b: &Snap, a: &Snap, fs: &mut Vec<Finding>| depot_only_relation(cx, b, a, "reassign_end_depots_greedily", fs)));
                sut::catch(|| match cur.reassign_end_depots_greedily() {
                    Ok(s) => Applied::Ok(s),
                    Err(e) => Applied::Err(e),
                })
            }
            9 => {
                rep.kind = "recompute_transitions_for";
                let arg: Option<Vec<VehicleTypeIdx>> = if pick(f(r, 1), 2) == 0 { None } else { Some(vec![cx.types[pick(f(r, 2), ntypes)]]) };
                rep.descr = format!("recompute_transitions_for({:?})", arg);
                rep.class = "transitions".into();
                post.push(Box::new(move |b: &Snap, a: &Snap, fs: &mut Vec<Finding>| {
                    depot_only_relation(cx, b, a, "recompute_transitions_for", fs);
                    if b.vehicles != a.vehicles {
                        fs.push(Finding { prop: "C13", msg: "recompute_transitions_for changed a tour".to_string() });
                    }
                }));
                sut::catch(|| Applied::Ok(cur.recompute_transitions_for(arg.clone())))
            }
            10 => {
                rep.kind = "reassign_end_depots_consistent_with_transitions";
                rep.descr = rep.kind.into();
                rep.class = "depot_only".into();
                touched.extend(reals.iter().copied());
                post.push(Box::new(move |b: &Snap, a: &Snap, fs: &mut Vec<Finding>| {
                    depot_only_relation(cx, b, a, "reassign_end_depots_consistent_with_transitions", fs);
                    // documented effect: every vehicle ends where its successor starts
                    for cycles in &a.cycles {
                        for c in cycles {
                            for (k, v) in c.iter().enumerate() {
                                let next = c[(k + 1) % c.len()];
                                let (Some(x), Some(y)) = (a.vehicles.get(v), a.vehicles.get(&next)) else { continue };
                                let e = cx.node_depot.get(x.1.last().unwrap()).map(|d| d.0);
                                let s0 = cx.node_depot.get(&y.1[0]).map(|d| d.0);
                                if e != s0 {
                                    fs.push(Finding { prop: "C13", msg: format!("reassign_end_depots_consistent_with_transitions: {} ends at depot {:?} but its successor {} starts at {:?}", v, e, next, s0) });
                                }
                            }
                        }
                    }
                }));
                sut::catch(|| Applied::Ok(cur.reassign_end_depots_consistent_with_transitions()))
            }
            _ => {
                rep.kind = "set_next_day_transitions";
                rep.class = "transitions".into();
                // transitions built over the current tours: new_fast, optionally followed by a move
                let do_move = pick(f(r, 1), 2) == 1;
                rep.descr = format!("set_next_day_transitions(new_fast{})", if do_move { " + move_vehicle" } else { "" });
                post.push(Box::new(move |b: &Snap, a: &Snap, fs: &mut Vec<Finding>| {
                    depot_only_relation(cx, b, a, "set_next_day_transitions", fs);
                    if b.vehicles != a.vehicles {
                        fs.push(Finding { prop: "C13", msg: "set_next_day_transitions changed a tour".to_string() });
                    }
                }));
                sut::catch(|| {
                    let mut m: ImHashMap<VehicleTypeIdx, Transition> = ImHashMap::new();
                    for vt in cx.types.iter() {
                        let vs: Vec<VehicleIdx> = cur.vehicles_iter(*vt).collect();
                        let mut t = Transition::new_fast(&vs, cur.get_tours(), &cx.net);
                        if do_move && t.number_of_cycles() >= 2 && !vs.is_empty() {
                            let v = vs[pick(f(r, 2), vs.len())];
                            let target = pick(f(r, 3), t.number_of_cycles());
                            let own = t.cycles_iter().position(|c| c.iter().any(|x| x == v));
                            if own != Some(target) {
                                t = t.move_vehicle(v, target, cur.get_tours(), &cx.net);
                            }
                        }
                        m.insert(*vt, t);
                    }
                    Applied::Ok(cur.set_next_day_transitions(m))
                })
            }
        };

        match result {
            Err(p) => {
                let delta = p.msg.contains("subtract") || p.msg.contains("with overflow") || p.loc.contains("distance.rs") || p.loc.contains("tour/modifications.rs") || p.loc.contains("rapid_time");
                let msg = format!("PANIC in {} at {}: {} [{}]", rep.kind, p.file(), p.msg.chars().take(200).collect::<String>(), rep.descr);
                if delta {
                    fs.push(Finding { prop: "C09", msg: msg.clone() });
                }
                fs.push(Finding { prop: "C13", msg });
                (rep, None)
            }
            Ok(Applied::Skipped) => (rep, None),
            Ok(Applied::Err(_e)) => {
                // an Err leaves the input untouched
                if snap(cx, cur) != before {
                    fs.push(Finding { prop: "C13", msg: format!("{} returned Err but the input schedule changed", rep.kind) });
                }
                (rep, None)
            }
            Ok(Applied::Ok(s)) => {
                rep.ok = true;
                let after = match sut::catch(|| snap(cx, &s)) {
                    Ok(a) => a,
                    Err(p) => {
                        fs.push(Finding { prop: "C10", msg: format!("PANIC while reading the schedule after {}: {} at {}", rep.descr, p.msg, p.file()) });
                        return (rep, None);
                    }
                };
                if snap(cx, cur) != before {
                    fs.push(Finding { prop: "C13", msg: format!("{}: the input schedule itself was modified", rep.kind) });
                }
                rep.changed_tours = after.vehicles != before.vehicles || after.dummies != before.dummies;
                let mut local = Vec::new();
                for chk in &post {
                    chk(&before, &after, &mut local);
                }
                check_frame(cx, &before, &after, &touched, rep.kind, &mut local);
                check_conservation(cx, &before, &after, &returned, rep.kind, &mut local);
                for f in local.iter_mut() {
                    f.msg = format!("{} [{}]", f.msg, rep.descr);
                }
                fs.extend(local);
                (rep, Some(s))
            }
        }
    }
}

impl HistoryEngine {
    /// one history step for other engines (C08's objective differential)
    pub fn step_public(&self, cx: &Ctx, cur: &Schedule, r: &[u32], fs: &mut Vec<Finding>) -> (StepReport, Option<Schedule>) {
        self.step(cx, cur, r, fs)
    }
}

pub fn validate_after(cx: &Ctx, s: &Schedule, label: &str, fs: &mut Vec<Finding>) {
    match sut::catch(|| osched::validate(cx, s, &osched::Opts { c09: true, c10: true })) {
        Ok(list) => {
            for mut f in list {
                f.msg = format!("{} [after {}]", f.msg, label);
                fs.push(f);
            }
        }
        Err(p) => fs.push(Finding { prop: "C10", msg: format!("PANIC while validating the schedule after {}: {} at {}", label, p.msg, p.file()) }),
    }
}

impl Engine for HistoryEngine {
    fn name(&self) -> &'static str {
        if self.walk {
            "walk"
        } else {
            "history"
        }
    }
    fn specs(&self) -> Vec<SecSpec> {
        let mut v = inst_specs(&self.cfg);
        if self.walk {
            v.push(sec(2, 1, self.max_levels));
        } else {
            v.push(sec(14, 1, self.max_ops));
        }
        v
    }
    fn rule(&self) -> String {
        if self.walk {
            return "instance tape + walk tape: start = min-cost-flow schedule with improved depots; at each level ALL candidates of neighbors_of(base) are collected and validated (C10 invariants + C09 recomputation + base unchanged), then the walk moves to candidate #k (any candidate, not only improving ones); distinct = tape digest; non-trivial = some level had >= 10 candidates of >= 2 swap kinds".into();
        }
        let nt = match self.prop.as_str() {
            "C09" => ">= 3 successful modifications of >= 2 kinds and the history touches a maintenance node or the overflow depot",
            "C10" => "history with a dummy provider or receiver, a whole-tour move, or a maintenance node in a moved segment",
            _ => ">= 1 operation returned Ok and changed a tour (counted per operation class)",
        };
        format!("instance tape (real loader) + operation tape decoded against the current schedule (spawn, replace dummy, delete, add path, remove segment, fit/override reassign, improve depots, end-depot reassignment, transition recomputation/replacement); O-SCHED after every successful step and the C13 before/after relation per operation; distinct = tape digest; non-trivial = {}", nt)
    }
    fn assumptions(&self) -> Vec<String> {
        vec![
            "arguments are valid in the sense of the doc comments; low-weight invalid-but-documented arguments (wrong type, unknown vehicle, full depot) must yield Err".into(),
            "preconditions no caller violates and that only unwrap-panic are not generated: add_path_to_vehicle_tour on a dummy id, improve_depots with duplicates or dummies, provider == receiver, reversed segments".into(),
            "R-INSERT / R-REMOVE are the reference semantics of C12".into(),
        ]
    }
    fn max_shrink_iters(&self) -> u32 {
        3000
    }

    fn eval(&self, tape: &Tape) -> CaseOutcome {
        let mut o = CaseOutcome::new(tape.digest());
        let inst = decode_inst(tape, &self.cfg, "");
        let input = inst.to_json();
        let cx = match sut::catch(|| Ctx::load(&input)) {
            Ok(Ok(c)) => c,
            Ok(Err(e)) => {
                o.excluded = Some(format!("cannot build context: {}", e));
                return o;
            }
            Err(p) => {
                o.excluded = Some(format!("loader panics: {}", p.msg));
                return o;
            }
        };
        let p: Vec<u32> = tape.sec(S_PARAMS).first().cloned().unwrap_or_default();
        let mut cur = match self.start_schedule(&cx, &p) {
            Ok(s) => s,
            Err(pn) => {
                o.excluded = Some(format!("start schedule panics at {}", pn.file()));
                return o;
            }
        };
        let mut fs: Vec<Finding> = Vec::new();
        let mut classes: BTreeSet<String> = inst_classes(&cx.flat).iter().map(|s| s.to_string()).collect();
        validate_after(&cx, &cur, "start", &mut fs);
        let mut log: Vec<String> = Vec::new();

        if self.walk {
            self.walk_eval(&cx, cur, tape, &mut o, fs, classes, log);
            return o;
        }

        let mut ok_kinds: BTreeSet<&'static str> = BTreeSet::new();
        let mut ok_count = 0;
        let mut touched_special = false;
        let mut c10_special = false;
        let mut changed_any = false;
        for r in tape.sec(S_OPS) {
            if !fs.is_empty() {
                break; // first failing step ends the history (the rest would be noise)
            }
            let (rep, next) = self.step(&cx, &cur, r, &mut fs);
            if rep.kind.is_empty() {
                continue;
            }
            log.push(format!("{}{}", if rep.ok { "ok  " } else { "err " }, if rep.descr.is_empty() { rep.kind.to_string() } else { rep.descr.clone() }));
            if let Some(s) = next {
                if !rep.class.is_empty() {
                    classes.insert(format!("op:{}", rep.class));
                }
                ok_kinds.insert(rep.kind);
                ok_count += 1;
                changed_any |= rep.changed_tours;
                if rep.descr.contains("OVERFLOW") || rep.descr.contains("\"M") {
                    touched_special = true;
                }
                if rep.class.contains("dummy") || rep.class.contains("with_depot") || rep.descr.contains("\"M") {
                    c10_special = true;
                }
                validate_after(&cx, &s, &rep.descr, &mut fs);
                cur = s;
            } else if !rep.class.is_empty() {
                classes.insert(format!("err:{}", rep.kind));
            }
        }
        o.nontrivial = match self.prop.as_str() {
            "C09" => ok_count >= 3 && ok_kinds.len() >= 2 && touched_special,
            "C10" => c10_special && ok_count >= 1,
            _ => changed_any,
        };
        o.classes = classes.into_iter().collect();
        o.sample = json!({"instance": cx.flat.summary(), "history": log, "final": cx.digest(&cur)});
        o.findings = fs;
        o
    }
}

impl HistoryEngine {
    #[allow(clippy::too_many_arguments)]
    fn walk_eval(&self, cx: &Ctx, start: Schedule, tape: &Tape, o: &mut CaseOutcome, mut fs: Vec<Finding>, mut classes: BTreeSet<String>, mut log: Vec<String>) {
        use rapid_solve::heuristics::common::ParallelNeighborhood;
        use solver::local_search::neighborhood::swaps::SwapInfo;
        use solver::local_search::neighborhood::RSSchedParallelNeighborhood;
        use solver::local_search::ScheduleWithInfo;
        let nb = RSSchedParallelNeighborhood::new(Some(rapid_time::Duration::new("3:00:00")), Some(rapid_time::Duration::new("0:10:00")), cx.net.clone());
        let mut cur = ScheduleWithInfo::new(start, SwapInfo::NoSwap, String::new());
        let mut nontrivial = false;
        for r in tape.sec(S_OPS) {
            if !fs.is_empty() {
                break;
            }
            let before = snap(cx, cur.get_schedule());
            let cands: Result<Vec<ScheduleWithInfo>, sut::PanicInfo> = sut::catch(|| nb.neighbors_of(&cur).collect());
            let cands = match cands {
                Ok(c) => c,
                Err(p) => {
                    fs.push(Finding { prop: "C11", msg: format!("PANIC while generating candidates at {}: {} (base {})", p.file(), p.msg.chars().take(200).collect::<String>(), cx.digest(cur.get_schedule())) });
                    break;
                }
            };
            if snap(cx, cur.get_schedule()) != before {
                fs.push(Finding { prop: "C11", msg: "generating candidates changed the base schedule".to_string() });
            }
            let mut kinds: BTreeSet<&'static str> = BTreeSet::new();
            for c in &cands {
                let k = match c.get_last_swap_info() {
                    SwapInfo::SpawnVehicleForMaintenance(_) => "spawn_for_maintenance",
                    SwapInfo::PathExchange(_) => "path_exchange",
                    SwapInfo::AddTripForHitchHiking(_) => "hitch_hiking",
                    SwapInfo::RemoveSingleNode(_) => "remove_single_node",
                    SwapInfo::NoSwap => "none",
                };
                kinds.insert(k);
                let mut local = Vec::new();
                validate_after(cx, c.get_schedule(), c.get_print_text(), &mut local);
                if let Some(f) = local.into_iter().next() {
                    fs.push(Finding { prop: "C11", msg: format!("candidate '{}' ({}) of base {}: [{}] {}", c.get_print_text(), k, cx.digest(cur.get_schedule())["vehicles"], f.prop, f.msg) });
                    break;
                }
            }
            for k in &kinds {
                classes.insert(format!("swap:{}", k));
            }
            log.push(format!("level: {} candidates of kinds {:?}", cands.len(), kinds));
            if cands.len() >= 10 && kinds.len() >= 2 {
                nontrivial = true;
            }
            if cands.is_empty() {
                break;
            }
            // move to candidate #k; candidates are sorted first (the parallel iterator's order is
            // not deterministic) so that the walk is a function of the tape
            let mut sorted: Vec<ScheduleWithInfo> = cands;
            sorted.sort();
            let k = pick(f(r, 0), sorted.len());
            cur = sorted.swap_remove(k);
        }
        o.nontrivial = nontrivial;
        o.classes = classes.into_iter().collect();
        o.sample = json!({"instance": cx.flat.summary(), "walk": log, "final": cx.digest(cur.get_schedule())});
        o.findings = fs;
    }
}

#[allow(dead_code)]
pub fn unused(_: Value) {}
