//! Shared entry for the libFuzzer targets (harness/fuzz): bytes -> tape -> the same engine and
//! oracle the proptest runs use. A finding for one of the target's properties that matches no open
//! known finding panics (libFuzzer then saves the input); `rsv fuzz-artifact` turns a saved input
//! into a replay file.

use crate::runner::{load_known, match_known, Engine};
use crate::tape::Tape;

pub fn make_engine(prop: &str, tier: &str) -> Option<Box<dyn Engine>> {
    match prop {
        "C01" | "C02" | "C03" | "C04" | "C05" | "C06" | "C07" | "C16" => Some(Box::new(crate::engine_pipeline::PipelineEngine::new(prop, tier))),
        "C17" => Some(Box::new(crate::engine_loader::LoaderEngine::new(tier))),
        "C12" => Some(Box::new(crate::engine_tour::TourEngine::new(tier))),
        "C18" => Some(Box::new(crate::engine_http::HttpEngine::new(tier))),
        "C14" => Some(Box::new(crate::engine_mcf::McfEngine::new(tier))),
        "C08" => Some(Box::new(crate::engine_search::SearchEngine::new(tier))),
        "C15" => Some(Box::new(crate::engine_transition::TransitionEngine::new(tier))),
        "C09" | "C10" | "C11" | "C13" => Some(Box::new(crate::engine_history::HistoryEngine::new(prop, tier))),
        _ => None,
    }
}

/// Evaluate one libFuzzer input. `props`: the properties whose findings count for this target;
/// the engine is the one of `props[0]`.
pub fn fuzz_one(props: &[&str], data: &[u8]) {
    crate::sut::silence_stdout();
    crate::sut::install_panic_hook();
    let engine = make_engine(props[0], "quick").expect("engine");
    let tape = Tape::from_bytes(&engine.specs(), data);
    let o = engine.eval(&tape);
    let known = load_known();
    for f in &o.findings {
        if props.contains(&f.prop) && match_known(&known, f).is_none() {
            // leave the silent hook so that libFuzzer's crash report shows the message
            let _ = std::panic::take_hook();
            panic!("FUZZ-VIOLATION property={} {}", f.prop, f.msg);
        }
    }
}

/// libFuzzer entry for the whole pipeline, in this process (so that the coverage feedback sees
/// the solver): findings of C01-C07 and C16 count. A hang is left to libFuzzer's -timeout.
pub fn fuzz_pipeline(data: &[u8]) {
    crate::sut::silence_stdout();
    crate::sut::install_panic_hook();
    let mut engine = crate::engine_pipeline::PipelineEngine::new("C06", "quick");
    engine.in_process = true;
    engine.profiles = vec!["checked"];
    engine.cfg.max_total_need = 14;
    let tape = Tape::from_bytes(&engine.specs(), data);
    let o = engine.eval(&tape);
    let known = load_known();
    let props = ["C01", "C02", "C03", "C04", "C05", "C06", "C07", "C16", "C09", "C10"];
    for f in &o.findings {
        if props.contains(&f.prop) && match_known(&known, f).is_none() {
            let _ = std::panic::take_hook();
            panic!("FUZZ-VIOLATION property={} {}", f.prop, f.msg);
        }
    }
}
