//! loader engine (C17): instance -> real loader -> every getter compared with the harness' own
//! reading of the input, reachability compared with O-TIME for all ordered node pairs, and the
//! successor / predecessor enumerations compared with brute force.

use crate::gen_inst::*;
use crate::inst::*;
use crate::ojson::Finding;
use crate::runner::{CaseOutcome, Engine};
use crate::sut::{self, Ctx};
use crate::tape::*;
use model::base_types::{Distance, Location, NodeIdx};
use serde_json::json;
use std::collections::BTreeSet;

pub struct LoaderEngine {
    pub cfg: GenCfg,
}

impl LoaderEngine {
    pub fn new(tier: &str) -> LoaderEngine {
        let mut cfg = if tier == "thorough" { GenCfg::thorough() } else { GenCfg::quick() };
        cfg.max_total_need = 200; // no solving here: demand is not bounded by run time
        LoaderEngine { cfg }
    }
}

fn fnd(out: &mut Vec<Finding>, msg: String) {
    out.push(Finding { prop: "C17", msg });
}

pub fn check_network(cx: &Ctx, fs: &mut Vec<Finding>) -> (bool, bool) {
    let fl = &cx.flat;
    let net = &cx.net;
    // ---- service nodes
    let mut seen = 0usize;
    for (ti, vt) in cx.types.iter().enumerate() {
        for n in net.service_nodes(*vt) {
            seen += 1;
            let Some(Act::Seg(i)) = cx.node_act.get(&n).copied() else {
                fnd(fs, format!("service node {} of type {} is no departure segment of the input", n, ti));
                continue;
            };
            let sg = &fl.segs[i];
            let node = net.node(n);
            let st = node.as_service_trip();
            if sg.vtype != ti || cx.type_of.get(&st.vehicle_type()) != Some(&sg.vtype) {
                fnd(fs, format!("segment {}: loaded with vehicle type {:?}, route prescribes {}", sg.id, cx.type_of.get(&st.vehicle_type()), sg.vtype));
            }
            let loc_id = |l: Location| net.locations().get_id(l).unwrap_or_default();
            if loc_id(node.start_location()) != fl.inst.locs[sg.origin] || loc_id(node.end_location()) != fl.inst.locs[sg.dest] {
                fnd(fs, format!("segment {}: loaded {}->{}, input {}->{}", sg.id, loc_id(node.start_location()), loc_id(node.end_location()), fl.inst.locs[sg.origin], fl.inst.locs[sg.dest]));
            }
            if node.travel_distance() != Distance::from_meter(sg.distance) {
                fnd(fs, format!("segment {}: loaded distance {} != input {}", sg.id, node.travel_distance(), sg.distance));
            }
            if node.start_time().as_iso() != fmt_time(sg.dep) {
                fnd(fs, format!("segment {}: loaded departure {} != input {}", sg.id, node.start_time().as_iso(), fmt_time(sg.dep)));
            }
            if node.end_time().as_iso() != fmt_time(sg.arr) {
                fnd(fs, format!("segment {}: loaded arrival {} != departure + duration {}", sg.id, node.end_time().as_iso(), fmt_time(sg.arr)));
            }
            if node.duration().in_sec().ok() != Some((sg.arr - sg.dep) as u64) {
                fnd(fs, format!("segment {}: loaded duration {} != {}", sg.id, node.duration(), sg.arr - sg.dep));
            }
            if st.passengers() as u64 != sg.passengers || net.passengers_of(n) as u64 != sg.passengers {
                fnd(fs, format!("segment {}: loaded passengers {} != input {} (zero counted as one)", sg.id, st.passengers(), sg.passengers));
            }
            if st.seated() as u64 != sg.seated || net.seated_passengers_of(n) as u64 != sg.seated {
                fnd(fs, format!("segment {}: loaded seated {} != input {}", sg.id, st.seated(), sg.seated));
            }
            if st.maximal_formation_count().map(|x| x as u64) != sg.seg_limit {
                fnd(fs, format!("segment {}: loaded route-segment limit {:?} != input {:?}", sg.id, st.maximal_formation_count(), sg.seg_limit));
            }
            if net.maximal_formation_count_for(n).map(|x| x as u64) != sg.lim {
                fnd(fs, format!("segment {}: formation limit {:?} != min over present limits {:?} (type {:?}, route segment {:?})", sg.id, net.maximal_formation_count_for(n), sg.lim, fl.inst.types[sg.vtype].max_form, sg.seg_limit));
            }
            if net.number_of_vehicles_required_to_serve(*vt, n) as u64 != sg.need {
                fnd(fs, format!("segment {}: vehicles required {} != {}", sg.id, net.number_of_vehicles_required_to_serve(*vt, n), sg.need));
            }
        }
    }
    if seen != fl.segs.len() || net.number_of_service_nodes() != fl.segs.len() || net.all_service_nodes().count() != fl.segs.len() {
        fnd(fs, format!("{} service nodes loaded (number_of_service_nodes {}), input has {} departure segments", seen, net.number_of_service_nodes(), fl.segs.len()));
    }
    // ---- maintenance nodes
    let mnodes: Vec<NodeIdx> = net.maintenance_nodes().collect();
    if mnodes.len() != fl.slots.len() || net.maintenance_considered() != !fl.slots.is_empty() {
        fnd(fs, format!("{} maintenance nodes loaded, input has {} slots", mnodes.len(), fl.slots.len()));
    }
    for n in &mnodes {
        let Some(Act::Slot(i)) = cx.node_act.get(n).copied() else { continue };
        let sl = &fl.slots[i];
        let node = net.node(*n);
        if net.locations().get_id(node.start_location()).unwrap_or_default() != fl.inst.locs[sl.loc] || node.start_location() != node.end_location() {
            fnd(fs, format!("slot {}: loaded at {}, input {}", sl.id, node.start_location(), fl.inst.locs[sl.loc]));
        }
        if node.start_time().as_iso() != fmt_time(sl.start) || node.end_time().as_iso() != fmt_time(sl.end) {
            fnd(fs, format!("slot {}: loaded {}..{}, input {}..{}", sl.id, node.start_time().as_iso(), node.end_time().as_iso(), fmt_time(sl.start), fmt_time(sl.end)));
        }
        if net.track_count_of_maintenance_slot(*n) as u64 != sl.tracks {
            fnd(fs, format!("slot {}: loaded {} tracks, input {}", sl.id, net.track_count_of_maintenance_slot(*n), sl.tracks));
        }
    }
    // ---- depots
    if net.depots_iter().count() != fl.depots.len() {
        fnd(fs, format!("{} depots loaded, expected {} (given or one per location, plus the overflow depot)", net.depots_iter().count(), fl.depots.len()));
    }
    let fleet_needed: Vec<u64> = (0..fl.inst.types.len()).map(|t| (0..fl.segs.len()).filter(|i| fl.segs[*i].vtype == t).map(|i| fl.required(i)).sum()).collect();
    let total_needed: u64 = fleet_needed.iter().sum();
    for (d, fd) in fl.depots.iter().enumerate() {
        let (didx, sn, en) = cx.depots[d];
        let dep = net.get_depot(didx);
        match fd.loc {
            Some(l) => {
                if net.locations().get_id(dep.location()).unwrap_or_default() != fl.inst.locs[l] {
                    fnd(fs, format!("depot {}: loaded at {}, input {}", fd.id, dep.location(), fl.inst.locs[l]));
                }
            }
            None => {
                if dep.location() != Location::Nowhere {
                    fnd(fs, format!("overflow depot is located at {}", dep.location()));
                }
            }
        }
        if net.node(sn).start_location() != dep.location() || net.node(en).start_location() != dep.location() || !net.node(sn).is_start_depot() || !net.node(en).is_end_depot() {
            fnd(fs, format!("depot {}: start/end nodes inconsistent", fd.id));
        }
        match fd.total {
            Some(t) => {
                if net.total_capacity_of(didx) as u64 != t {
                    fnd(fs, format!("depot {}: total capacity {} != input {}", fd.id, net.total_capacity_of(didx), t));
                }
            }
            None => {
                if (net.total_capacity_of(didx) as u64) < total_needed {
                    fnd(fs, format!("depot {} must be able to host every vehicle but has total capacity {} < {} vehicles a one-vehicle-per-trip schedule needs", fd.id, net.total_capacity_of(didx), total_needed));
                }
            }
        }
        for (ti, vt) in cx.types.iter().enumerate() {
            let got = net.capacity_of(didx, *vt) as u64;
            match fl.depot_capacity_for(d, ti) {
                Some(c) => {
                    if got != c {
                        fnd(fs, format!("depot {}: capacity for type {} is {} != min(per-type {:?}, total {:?}) = {}", fd.id, ti, got, fd.per_type[ti], fd.total, c));
                    }
                }
                None => {
                    if got < fleet_needed[ti] {
                        fnd(fs, format!("depot {} must be able to host every vehicle but has capacity {} for type {} < {} vehicles a one-vehicle-per-trip schedule needs", fd.id, got, ti, fleet_needed[ti]));
                    }
                }
            }
        }
    }
    let ov = net.overflow_depot_idxs();
    let last = cx.depots[fl.depots.len() - 1];
    if (ov.0, ov.1, ov.2) != last {
        fnd(fs, "overflow_depot_idxs do not name the OVERFLOW_DEPOT".to_string());
    }
    // ---- locations, config
    for (a, la) in fl.inst.locs.iter().enumerate() {
        for (b, _) in fl.inst.locs.iter().enumerate() {
            // find Location objects through any node? use LocationIdx by input order via get_id
            let find = |name: &str| net.locations().iter().find(|l| net.locations().get_id(*l).map(|x| x == name).unwrap_or(false));
            let (Some(x), Some(y)) = (find(la), find(&fl.inst.locs[b])) else {
                fnd(fs, format!("location {} missing", la));
                continue;
            };
            if net.locations().travel_time(x, y).in_sec().ok() != Some(fl.dh_dur[a][b]) {
                fnd(fs, format!("dead-head duration {}->{}: loaded {} != input (clamped to horizon) {}", la, fl.inst.locs[b], net.locations().travel_time(x, y), fl.dh_dur[a][b]));
            }
            if net.locations().distance(x, y) != Distance::from_meter(fl.dh_dist[a][b]) {
                fnd(fs, format!("dead-head distance {}->{}: loaded {} != input (clamped) {}", la, fl.inst.locs[b], net.locations().distance(x, y), fl.dh_dist[a][b]));
            }
        }
    }
    let cfg = net.config();
    if cfg.forbid_dead_head_trip != fl.forbid
        || cfg.shunting.minimal.in_sec().ok() != Some(fl.inst.shunt_min)
        || cfg.shunting.dead_head_trip.in_sec().ok() != Some(fl.inst.shunt_dh)
        || cfg.maintenance.maximal_distance != Distance::from_meter(fl.max_distance)
        || cfg.costs.staff != fl.inst.costs.staff
        || cfg.costs.service_trip != fl.inst.costs.service
        || cfg.costs.maintenance != fl.cost_maint
        || cfg.costs.dead_head_trip != fl.inst.costs.dead_head
        || cfg.costs.idle != fl.inst.costs.idle
    {
        fnd(fs, "config (forbid / shunting / maximalDistance / costs) differs from the input parameters".to_string());
    }
    if net.planning_days().in_sec().ok() != Some(fl.horizon) {
        fnd(fs, format!("planning duration {} != {} s", net.planning_days(), fl.horizon));
    }
    // ---- reachability: all ordered pairs
    let all: Vec<NodeIdx> = net.all_nodes().collect();
    if all.len() != net.size() || all.len() != fl.segs.len() + fl.slots.len() + 2 * fl.depots.len() {
        fnd(fs, format!("network has {} nodes, expected {}", all.len(), fl.segs.len() + fl.slots.len() + 2 * fl.depots.len()));
    }
    let mut tie_connectable = false;
    let mut blocked_by_shunting = false;
    for &a in &all {
        for &b in &all {
            let want = match (cx.node_act.get(&a), cx.node_act.get(&b)) {
                (Some(x), Some(y)) => {
                    let w = a != b && fl.connectable(*x, *y);
                    if a != b {
                        if w && fl.pair_class(*x, *y).starts_with("tie") {
                            // connectable exactly at the boundary: end + turnaround == start
                            tie_connectable = true;
                        }
                        if !w {
                            // would be connectable with zero shunting?
                            let (la, lb) = (fl.act_end_loc(*x), fl.act_start_loc(*y));
                            let base = if la == lb { 0 } else { fl.dh_dur[la][lb] as i64 };
                            if (la == lb || !fl.forbid) && fl.act_end(*x) + base <= fl.act_start(*y) {
                                blocked_by_shunting = true;
                            }
                        }
                    }
                    w
                }
                _ => {
                    let a_start = cx.node_depot.get(&a).map(|d| d.1);
                    let b_start = cx.node_depot.get(&b).map(|d| d.1);
                    if b_start == Some(true) || a_start == Some(false) {
                        false
                    } else {
                        true
                    }
                }
            };
            if net.can_reach(a, b) != want {
                fnd(fs, format!("can_reach({}, {}) = {} but the documented timing rule says {}", cx.node_name(a), cx.node_name(b), net.can_reach(a, b), want));
            }
        }
    }
    // ---- successors / predecessors vs brute force, per type view
    for (ti, vt) in cx.types.iter().enumerate() {
        let view: Vec<NodeIdx> = all
            .iter()
            .copied()
            .filter(|n| match cx.node_act.get(n) {
                Some(Act::Seg(i)) => fl.segs[*i].vtype == ti,
                _ => true,
            })
            .collect();
        for &n in &view {
            let want_succ: BTreeSet<NodeIdx> = view.iter().copied().filter(|m| net.can_reach(n, *m)).collect();
            let got_succ: Vec<NodeIdx> = net.successors(*vt, n).collect();
            let got_set: BTreeSet<NodeIdx> = got_succ.iter().copied().collect();
            if got_set != want_succ || got_set.len() != got_succ.len() {
                let missing: Vec<String> = want_succ.difference(&got_set).map(|x| cx.node_name(*x)).collect();
                let extra: Vec<String> = got_set.difference(&want_succ).map(|x| cx.node_name(*x)).collect();
                fnd(fs, format!("successors(type {}, {}) differ from the nodes it can reach: missing {:?}, extra {:?}", ti, cx.node_name(n), missing, extra));
            }
            let want_pred: BTreeSet<NodeIdx> = view.iter().copied().filter(|m| net.can_reach(*m, n)).collect();
            let got_pred: Vec<NodeIdx> = net.predecessors(*vt, n).collect();
            let got_set: BTreeSet<NodeIdx> = got_pred.iter().copied().collect();
            if got_set != want_pred || got_set.len() != got_pred.len() {
                let missing: Vec<String> = want_pred.difference(&got_set).map(|x| cx.node_name(*x)).collect();
                let extra: Vec<String> = got_set.difference(&want_pred).map(|x| cx.node_name(*x)).collect();
                fnd(fs, format!("predecessors(type {}, {}) differ from the nodes that can reach it: missing {:?}, extra {:?}", ti, cx.node_name(n), missing, extra));
            }
        }
    }
    (tie_connectable, blocked_by_shunting)
}

impl Engine for LoaderEngine {
    fn name(&self) -> &'static str {
        "loader"
    }
    fn specs(&self) -> Vec<SecSpec> {
        inst_specs(&self.cfg)
    }
    fn rule(&self) -> String {
        "G-INST tapes decoded into valid instances and loaded with the real loader; every getter, can_reach for ALL ordered node pairs and successors/predecessors for every (type, node) are compared with the harness' own reading; distinct = tape digest; non-trivial = >= 1 connectable pair exactly at the boundary (end + required turnaround == start; zero-turnaround ties are the class back_to_back_zero_turnaround) AND >= 1 pair that is unconnectable only because of shunting time".to_string()
    }
    fn assumptions(&self) -> Vec<String> {
        vec![
            "'unlimited' default depots / 'can always host every vehicle' is demanded only up to the fleet of the one-vehicle-per-trip schedule (sum over segments of min(need, limit))".into(),
            "instances have >= 1 departure segment".into(),
        ]
    }
    fn eval(&self, tape: &Tape) -> CaseOutcome {
        let mut o = CaseOutcome::new(tape.digest());
        let inst = decode_inst(tape, &self.cfg, "");
        let input = inst.to_json();
        let fl = match Flat::new(&inst) {
            Ok(f) => f,
            Err(e) => {
                o.excluded = Some(format!("undecodable instance: {}", e));
                return o;
            }
        };
        o.classes = inst_classes(&fl).iter().map(|s| s.to_string()).collect();
        o.sample = json!({"instance": fl.summary()});
        let loaded = sut::catch(|| model::json_serialisation::load_rolling_stock_problem_instance_from_json(input.clone()));
        let net = match loaded {
            Ok(n) => n,
            Err(p) => {
                o.findings.push(Finding { prop: "C17", msg: format!("PANIC while loading a valid instance at {}: {}", p.file(), p.msg) });
                return o;
            }
        };
        let cx = match Ctx::from_parts(fl, net) {
            Ok(c) => c,
            Err(e) => {
                o.findings.push(Finding { prop: "C17", msg: format!("loaded network does not match the instance: {}", e) });
                return o;
            }
        };
        let mut fs = Vec::new();
        match sut::catch(|| {
            let mut fs = Vec::new();
            let r = check_network(&cx, &mut fs);
            (fs, r)
        }) {
            Ok((f, (tie, blocked))) => {
                fs = f;
                o.nontrivial = tie && blocked;
                if tie {
                    o.classes.push("connectable_pair_at_boundary".into());
                }
                if blocked {
                    o.classes.push("blocked_only_by_shunting".into());
                }
            }
            Err(p) => fs.push(Finding { prop: "C17", msg: format!("PANIC in a getter at {}: {}", p.file(), p.msg) }),
        }
        // report at most a handful of findings per case
        fs.truncate(8);
        o.findings = fs;
        o
    }
}
