//! O-SCHED: validator over a `Schedule` through public getters only.
//!
//! C10: structural invariants. C09: every cached figure recomputed from scratch with the harness'
//! own formulas over `Flat` (not with the implementation's `compute_*` helpers).

use crate::inst::*;
use crate::ojson::Finding;
use crate::sut::Ctx;
use model::base_types::{Distance, NodeIdx, VehicleIdx};
use solution::Schedule;
use std::collections::{BTreeMap, BTreeSet, HashMap};

fn fnd(out: &mut Vec<Finding>, prop: &'static str, msg: String) {
    out.push(Finding { prop, msg });
}

pub struct TourView {
    pub start_depot: Option<usize>,
    pub end_depot: Option<usize>,
    pub acts: Vec<Act>,
    pub well_formed: bool,
}

/// Split a node list into (start depot, activities, end depot).
pub fn tour_view(cx: &Ctx, nodes: &[NodeIdx], dummy: bool) -> TourView {
    let mut well_formed = true;
    let mut acts = Vec::new();
    let mut start_depot = None;
    let mut end_depot = None;
    for (i, n) in nodes.iter().enumerate() {
        if let Some(a) = cx.node_act.get(n) {
            acts.push(*a);
            if !dummy && (i == 0 || i + 1 == nodes.len()) {
                well_formed = false;
            }
        } else if let Some((d, is_start)) = cx.node_depot.get(n) {
            if dummy {
                well_formed = false;
            } else if i == 0 && *is_start {
                start_depot = Some(*d);
            } else if i + 1 == nodes.len() && !*is_start && i > 0 {
                end_depot = Some(*d);
            } else {
                well_formed = false;
            }
        } else {
            well_formed = false;
        }
    }
    if !dummy && (start_depot.is_none() || end_depot.is_none()) {
        well_formed = false;
    }
    if acts.is_empty() {
        well_formed = false;
    }
    TourView { start_depot, end_depot, acts, well_formed }
}

/// costs of a dummy tour (no depot legs)
fn path_costs(fl: &Flat, acts: &[Act]) -> u64 {
    let c = &fl.inst.costs;
    let mut total = 0u64;
    for a in acts {
        let dur = (fl.act_end(*a) - fl.act_start(*a)) as u64;
        total += dur
            * match a {
                Act::Seg(_) => c.service,
                Act::Slot(_) => fl.cost_maint,
            };
    }
    for w in acts.windows(2) {
        let dh = fl.dh_dur[fl.act_end_loc(w[0])][fl.act_start_loc(w[1])];
        total += dh * c.dead_head;
        let idle = fl.act_start(w[1]) - fl.act_end(w[0]) - dh as i64;
        if idle > 0 {
            total += idle as u64 * c.idle;
        }
    }
    total
}

/// C09 for one tour object: every cached figure against the harness' own recomputation.
pub fn check_tour_caches(cx: &Ctx, tour: &solution::tour::Tour) -> Vec<String> {
    let fl = &cx.flat;
    let nodes: Vec<NodeIdx> = tour.all_nodes_iter().collect();
    let view = tour_view(cx, &nodes, tour.is_dummy());
    let mut out = Vec::new();
    if !view.well_formed {
        out.push(format!("tour {:?} is not well-formed (dummy {})", nodes.iter().map(|n| cx.node_name(*n)).collect::<Vec<_>>(), tour.is_dummy()));
        return out;
    }
    let service: u64 = view.acts.iter().map(|a| fl.act_distance(*a)).sum();
    let (dh, costs) = if tour.is_dummy() {
        (Some(view.acts.windows(2).map(|w| fl.dh_dist[fl.act_end_loc(w[0])][fl.act_start_loc(w[1])]).sum::<u64>()), path_costs(fl, &view.acts))
    } else {
        let (sd, ed) = (view.start_depot.unwrap(), view.end_depot.unwrap());
        (fl.itinerary_distances(sd, &view.acts, ed).1, fl.itinerary_costs(sd, &view.acts, ed))
    };
    if tour.service_distance() != Distance::from_meter(service) {
        out.push(format!("cached service distance {} != recomputed {} m", tour.service_distance(), service));
    }
    let want_dh = match dh {
        Some(d) => Distance::from_meter(d),
        None => Distance::Infinity,
    };
    if tour.dead_head_distance() != want_dh {
        out.push(format!("cached dead-head distance {} != recomputed {}", tour.dead_head_distance(), want_dh));
    }
    let useful: i64 = view.acts.iter().map(|a| fl.act_end(*a) - fl.act_start(*a)).sum();
    if tour.useful_duration().in_sec().ok() != Some(useful as u64) {
        out.push(format!("cached useful duration {} != recomputed {} s", tour.useful_duration(), useful));
    }
    if tour.costs() != costs {
        out.push(format!("cached costs {} != recomputed {}", tour.costs(), costs));
    }
    let visits = view.acts.iter().any(|a| matches!(a, Act::Slot(_)));
    if tour.visits_maintenance() != visits {
        out.push(format!("cached visits-maintenance flag {} != {}", tour.visits_maintenance(), visits));
    }
    out
}

pub struct Opts {
    pub c09: bool,
    pub c10: bool,
}

/// Validate a schedule. `label` prefixes messages.
pub fn validate(cx: &Ctx, s: &Schedule, opts: &Opts) -> Vec<Finding> {
    let fl = &cx.flat;
    let mut fs = Vec::new();

    // ---- listings
    let mut listed: Vec<(usize, VehicleIdx)> = Vec::new();
    for (ti, vt) in cx.types.iter().enumerate() {
        let vs: Vec<VehicleIdx> = s.vehicles_iter(*vt).collect();
        if opts.c10 && vs.windows(2).any(|w| w[0] >= w[1]) {
            fnd(&mut fs, "C10", format!("vehicle listing of type {} is not strictly sorted: {:?}", fl.inst.types[ti].id, vs));
        }
        for v in vs {
            listed.push((ti, v));
        }
    }
    if opts.c10 {
        let from_listing: BTreeSet<VehicleIdx> = listed.iter().map(|x| x.1).collect();
        let from_tours: BTreeSet<VehicleIdx> = s.get_tours().keys().copied().collect();
        if from_listing != from_tours || from_listing.len() != listed.len() {
            fnd(&mut fs, "C10", format!("vehicle listing {:?} does not match the stored tours {:?}", listed.iter().map(|x| x.1).collect::<Vec<_>>(), from_tours));
        }
        if s.number_of_vehicles() != from_tours.len() {
            fnd(&mut fs, "C10", format!("number_of_vehicles {} != stored tours {}", s.number_of_vehicles(), from_tours.len()));
        }
        for (ti, v) in &listed {
            match s.vehicle_type_of(*v) {
                Ok(vt) if cx.type_of.get(&vt) == Some(ti) => {}
                other => fnd(&mut fs, "C10", format!("vehicle {} is listed under type {} but vehicle_type_of says {:?}", v, ti, other)),
            }
        }
        let dummies: Vec<VehicleIdx> = s.dummy_iter().collect();
        if dummies.windows(2).any(|w| w[0] >= w[1]) {
            fnd(&mut fs, "C10", format!("dummy listing is not strictly sorted: {:?}", dummies));
        }
        if dummies.len() != s.number_of_dummy_tours() || dummies.iter().any(|d| !s.is_dummy(*d) || s.tour_of(*d).is_err()) {
            fnd(&mut fs, "C10", format!("dummy listing {:?} does not match the stored dummy tours ({} stored)", dummies, s.number_of_dummy_tours()));
        }
    }

    // ---- tours
    let mut contains: HashMap<Act, Vec<VehicleIdx>> = HashMap::new();
    let mut views: HashMap<VehicleIdx, TourView> = HashMap::new();
    let mut cost_sum = fl.inst.costs.staff * fl.segs.len() as u64;
    for (ti, v) in &listed {
        let Ok(tour) = s.tour_of(*v) else {
            fnd(&mut fs, "C10", format!("listed vehicle {} has no tour", v));
            continue;
        };
        let nodes: Vec<NodeIdx> = tour.all_nodes_iter().collect();
        let view = tour_view(cx, &nodes, false);
        if opts.c10 {
            if tour.is_dummy() {
                fnd(&mut fs, "C10", format!("tour of real vehicle {} is flagged dummy", v));
            }
            if !view.well_formed {
                fnd(&mut fs, "C10", format!("tour of {} is not start depot, >=1 activity, end depot: {:?}", v, cx.tour_names(s, *v)));
            }
            for w in view.acts.windows(2) {
                if !fl.connectable(w[0], w[1]) {
                    fnd(&mut fs, "C10", format!("tour of {}: {} cannot be followed by {} under the timing rule", v, fl.act_id(w[0]), fl.act_id(w[1])));
                }
                if !(fl.act_start(w[0]) < fl.act_start(w[1]) && fl.act_end(w[0]) <= fl.act_start(w[1])) {
                    fnd(&mut fs, "C10", format!("tour of {} is not chronological at {} / {}", v, fl.act_id(w[0]), fl.act_id(w[1])));
                }
            }
            for w in nodes.windows(2) {
                if !cx.net.can_reach(w[0], w[1]) {
                    fnd(&mut fs, "C10", format!("tour of {}: can_reach({}, {}) is false", v, cx.node_name(w[0]), cx.node_name(w[1])));
                }
            }
            for a in &view.acts {
                if let Act::Seg(i) = a {
                    if fl.segs[*i].vtype != *ti {
                        fnd(&mut fs, "C10", format!("vehicle {} of type {} has service trip {} of type {}", v, ti, fl.segs[*i].id, fl.segs[*i].vtype));
                    }
                }
            }
        }
        for a in &view.acts {
            contains.entry(*a).or_default().push(*v);
        }
        if opts.c09 && view.well_formed {
            let (sd, ed) = (view.start_depot.unwrap(), view.end_depot.unwrap());
            let (service, dh) = fl.itinerary_distances(sd, &view.acts, ed);
            let got_service = tour.service_distance();
            if got_service != Distance::from_meter(service) {
                fnd(&mut fs, "C09", format!("tour of {}: cached service distance {} != recomputed {} m", v, got_service, service));
            }
            let want_dh = match dh {
                Some(d) => Distance::from_meter(d),
                None => Distance::Infinity,
            };
            if tour.dead_head_distance() != want_dh {
                fnd(&mut fs, "C09", format!("tour of {} {:?}: cached dead-head distance {} != recomputed {}", v, cx.tour_names(s, *v), tour.dead_head_distance(), want_dh));
            }
            let useful: i64 = view.acts.iter().map(|a| fl.act_end(*a) - fl.act_start(*a)).sum();
            if tour.useful_duration().in_sec().ok() != Some(useful as u64) {
                fnd(&mut fs, "C09", format!("tour of {}: cached useful duration {} != recomputed {} s", v, tour.useful_duration(), useful));
            }
            let costs = fl.itinerary_costs(sd, &view.acts, ed);
            if tour.costs() != costs {
                fnd(&mut fs, "C09", format!("tour of {} {:?}: cached costs {} != recomputed {}", v, cx.tour_names(s, *v), tour.costs(), costs));
            }
            let visits = view.acts.iter().any(|a| matches!(a, Act::Slot(_)));
            if tour.visits_maintenance() != visits {
                fnd(&mut fs, "C09", format!("tour of {}: cached visits-maintenance flag {} != {}", v, tour.visits_maintenance(), visits));
            }
            if tour.maintenance_counter() != fl.itinerary_counter(sd, &view.acts, ed) {
                fnd(&mut fs, "C09", format!("tour of {}: maintenance counter {} != recomputed {}", v, tour.maintenance_counter(), fl.itinerary_counter(sd, &view.acts, ed)));
            }
            cost_sum += costs;
        } else if opts.c09 {
            cost_sum += tour.costs();
        }
        views.insert(*v, view);
    }
    for d in s.dummy_iter() {
        let Ok(tour) = s.tour_of(d) else { continue };
        let nodes: Vec<NodeIdx> = tour.all_nodes_iter().collect();
        let view = tour_view(cx, &nodes, true);
        if opts.c10 {
            if !tour.is_dummy() {
                fnd(&mut fs, "C10", format!("dummy tour {} is not flagged dummy", d));
            }
            if !view.well_formed {
                fnd(&mut fs, "C10", format!("dummy tour {} is empty or contains a depot: {:?}", d, cx.tour_names(s, d)));
            }
            for w in view.acts.windows(2) {
                if !(fl.act_start(w[0]) < fl.act_start(w[1])) {
                    fnd(&mut fs, "C10", format!("dummy tour {} is not chronological at {} / {}", d, fl.act_id(w[0]), fl.act_id(w[1])));
                }
            }
        }
        if opts.c09 && view.well_formed {
            let service: u64 = view.acts.iter().map(|a| fl.act_distance(*a)).sum();
            if tour.service_distance() != Distance::from_meter(service) {
                fnd(&mut fs, "C09", format!("dummy tour {}: cached service distance {} != recomputed {}", d, tour.service_distance(), service));
            }
            let dh: u64 = view.acts.windows(2).map(|w| fl.dh_dist[fl.act_end_loc(w[0])][fl.act_start_loc(w[1])]).sum();
            if tour.dead_head_distance() != Distance::from_meter(dh) {
                fnd(&mut fs, "C09", format!("dummy tour {} {:?}: cached dead-head distance {} != recomputed {}", d, cx.tour_names(s, d), tour.dead_head_distance(), dh));
            }
            let useful: i64 = view.acts.iter().map(|a| fl.act_end(*a) - fl.act_start(*a)).sum();
            if tour.useful_duration().in_sec().ok() != Some(useful as u64) {
                fnd(&mut fs, "C09", format!("dummy tour {}: cached useful duration {} != recomputed {}", d, tour.useful_duration(), useful));
            }
            let costs = path_costs(fl, &view.acts);
            if tour.costs() != costs {
                fnd(&mut fs, "C09", format!("dummy tour {} {:?}: cached costs {} != recomputed {}", d, cx.tour_names(s, d), tour.costs(), costs));
            }
            let visits = view.acts.iter().any(|a| matches!(a, Act::Slot(_)));
            if tour.visits_maintenance() != visits {
                fnd(&mut fs, "C09", format!("dummy tour {}: cached visits-maintenance flag {} != {}", d, tour.visits_maintenance(), visits));
            }
        }
    }

    // ---- formations
    let all_acts: Vec<Act> = (0..fl.segs.len()).map(Act::Seg).chain((0..fl.slots.len()).map(Act::Slot)).collect();
    let mut unserved = (0u64, 0u64);
    for a in &all_acts {
        let Some(n) = cx.act_node.get(a) else { continue };
        let ids = s.train_formation_of(*n).ids();
        let mut sorted = ids.clone();
        sorted.sort();
        let mut expect = contains.get(a).cloned().unwrap_or_default();
        expect.sort();
        if opts.c10 {
            if sorted.windows(2).any(|w| w[0] == w[1]) {
                fnd(&mut fs, "C10", format!("formation of {} contains a vehicle twice: {:?}", fl.act_id(*a), ids));
            }
            if sorted != expect {
                fnd(&mut fs, "C10", format!("formation of {} is {:?} but the vehicles whose tour contains it are {:?}", fl.act_id(*a), ids, expect));
            }
            let k = ids.len() as u64;
            match a {
                Act::Seg(i) => {
                    if let Some(l) = fl.segs[*i].lim {
                        if k > l {
                            fnd(&mut fs, "C10", format!("formation of {} has {} vehicles, limit {}", fl.act_id(*a), k, l));
                        }
                    }
                }
                Act::Slot(i) => {
                    if k > fl.slots[*i].tracks {
                        fnd(&mut fs, "C10", format!("slot {} hosts {} vehicles, tracks {}", fl.act_id(*a), k, fl.slots[*i].tracks));
                    }
                }
            }
        }
        if let Act::Seg(i) = a {
            let (x, y) = fl.shortfall(*i, ids.len() as u64);
            unserved.0 += x;
            unserved.1 += y;
            if opts.c09 {
                let got = s.unserved_passengers_at(*n);
                if (got.0 as u64, got.1 as u64) != (x, y) {
                    fnd(&mut fs, "C09", format!("unserved passengers at {}: {:?} != recomputed {:?}", fl.act_id(*a), got, (x, y)));
                }
            }
        }
    }

    // ---- depots
    let mut spawn: BTreeMap<(usize, usize), i64> = BTreeMap::new();
    let mut despawn: BTreeMap<(usize, usize), i64> = BTreeMap::new();
    for (ti, v) in &listed {
        if let Some(view) = views.get(v) {
            if let Some(d) = view.start_depot {
                *spawn.entry((d, *ti)).or_insert(0) += 1;
            }
            if let Some(d) = view.end_depot {
                *despawn.entry((d, *ti)).or_insert(0) += 1;
            }
        }
    }
    for d in 0..fl.depots.len() {
        let didx = cx.depots[d].0;
        let mut total = 0i64;
        for (ti, vt) in cx.types.iter().enumerate() {
            let n = spawn.get(&(d, ti)).copied().unwrap_or(0);
            let e = despawn.get(&(d, ti)).copied().unwrap_or(0);
            total += n;
            if opts.c09 {
                if s.number_of_vehicles_of_same_type_spawned_at(didx, *vt) as i64 != n {
                    fnd(&mut fs, "C09", format!("spawn count at depot {} for type {}: cached {} != {} tours starting there", fl.depots[d].id, ti, s.number_of_vehicles_of_same_type_spawned_at(didx, *vt), n));
                }
                if s.depot_balance(didx, *vt) as i64 != n - e {
                    fnd(&mut fs, "C09", format!("balance at depot {} for type {}: cached {} != {} starts - {} ends", fl.depots[d].id, ti, s.depot_balance(didx, *vt), n, e));
                }
            }
            if opts.c10 && fl.depots[d].id != OVERFLOW {
                if let Some(c) = fl.depot_capacity_for(d, ti) {
                    if n as u64 > c {
                        fnd(&mut fs, "C10", format!("{} vehicles of type {} start at depot {} (capacity for the type {})", n, ti, fl.depots[d].id, c));
                    }
                }
            }
        }
        if opts.c09 && s.number_of_vehicles_spawned_at(didx) as i64 != total {
            fnd(&mut fs, "C09", format!("spawn count at depot {}: cached {} != {}", fl.depots[d].id, s.number_of_vehicles_spawned_at(didx), total));
        }
        if opts.c10 && fl.depots[d].id != OVERFLOW {
            if let Some(t) = fl.depots[d].total {
                if total as u64 > t {
                    fnd(&mut fs, "C10", format!("{} vehicles start at depot {} (total capacity {})", total, fl.depots[d].id, t));
                }
            }
        }
    }

    // ---- rotation cycles
    let mut violation_sum = 0i64;
    let mut cycles_complete = true;
    for (ti, vt) in cx.types.iter().enumerate() {
        let tr = s.next_day_transition_of(*vt);
        let mut members: Vec<VehicleIdx> = tr.cycles_iter().flat_map(|c| c.iter()).collect();
        members.sort();
        let mut fleet: Vec<VehicleIdx> = listed.iter().filter(|x| x.0 == ti).map(|x| x.1).collect();
        fleet.sort();
        if members != fleet {
            if opts.c10 {
                fnd(&mut fs, "C10", format!("type {}: rotation cycles {:?} do not contain each real vehicle {:?} exactly once", ti, tr.cycles_iter().map(|c| c.get_vec().clone()).collect::<Vec<_>>(), fleet));
            }
            cycles_complete = false;
            continue;
        }
        let mut type_violation = 0i64;
        let mut type_counter = 0i64;
        for c in tr.cycles_iter() {
            let vs = c.get_vec();
            let mut counter = 0i64;
            let mut ok = true;
            for (k, v) in vs.iter().enumerate() {
                let (Some(a), Some(b)) = (views.get(v), views.get(&vs[(k + 1) % vs.len()])) else {
                    ok = false;
                    continue;
                };
                if !(a.well_formed && b.well_formed) {
                    ok = false;
                    continue;
                }
                counter += fl.itinerary_counter(a.start_depot.unwrap(), &a.acts, a.end_depot.unwrap());
                counter += fl.depot_transfer(a.end_depot.unwrap(), b.start_depot.unwrap());
            }
            if !ok {
                cycles_complete = false;
                continue;
            }
            if opts.c09 && c.maintenance_counter() != counter {
                fnd(&mut fs, "C09", format!("type {}: cycle {:?} has cached maintenance counter {} != recomputed {}", ti, vs, c.maintenance_counter(), counter));
            }
            type_violation += counter.max(0);
            type_counter += counter;
        }
        if opts.c09 && (tr.maintenance_violation() != type_violation || tr.maintenance_counter() != type_counter) {
            fnd(&mut fs, "C09", format!("type {}: transition totals (violation {}, counter {}) != recomputed ({}, {})", ti, tr.maintenance_violation(), tr.maintenance_counter(), type_violation, type_counter));
        }
        violation_sum += type_violation;
    }

    // ---- schedule-level aggregates
    if opts.c09 {
        if cycles_complete && s.maintenance_violation() != violation_sum {
            fnd(&mut fs, "C09", format!("schedule maintenance violation {} != recomputed {} over its current cycles", s.maintenance_violation(), violation_sum));
        }
        let u = s.unserved_passengers();
        if (u.0 as u64, u.1 as u64) != unserved {
            fnd(&mut fs, "C09", format!("schedule unserved passengers {:?} != recomputed {:?}", u, unserved));
        }
        if s.costs() != cost_sum {
            fnd(&mut fs, "C09", format!("schedule costs {} != recomputed {} (tours + staff term)", s.costs(), cost_sum));
        }
    }
    fs
}
