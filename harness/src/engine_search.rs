//! search engine (C08): trajectory of the real local search (hook H3), fixpoint re-run, and the
//! objective-order differential on schedules taken from random API histories.

use crate::engine_history::{greedy_chains, snap, HistoryEngine, S_OPS};
use crate::inst::Act;
use crate::gen_inst::*;
use crate::ojson::Finding;
use crate::runner::{CaseOutcome, Engine};
use crate::sut::{self, Ctx};
use crate::tape::*;
use rapid_solve::heuristics::Solver;
use serde_json::json;
use solution::Schedule;
use solver::local_search::neighborhood::swaps::SwapInfo;
use solver::local_search::ScheduleWithInfo;

pub struct SearchEngine {
    pub cfg: GenCfg,
    pub hist: HistoryEngine,
}

impl SearchEngine {
    pub fn new(tier: &str) -> SearchEngine {
        let thorough = tier == "thorough";
        let mut cfg = GenCfg::quick();
        cfg.force_slots = true;
        cfg.max_departures = if thorough { 14 } else { 5 };
        cfg.max_total_need = if thorough { 40 } else { 11 };
        cfg.max_need = if thorough { 4 } else { 3 };
        cfg.rush = true;
        if thorough {
            cfg.max_departures = 36;
            cfg.max_total_need = 64;
        }
        let mut hist = HistoryEngine::new("C13", tier);
        hist.cfg = cfg;
        SearchEngine { cfg, hist }
    }
}

fn lex_improves(a: &[i64; 4], b: &[i64; 4]) -> bool {
    a < b
}

impl Engine for SearchEngine {
    fn name(&self) -> &'static str {
        "search"
    }
    fn specs(&self) -> Vec<SecSpec> {
        let mut v = inst_specs(&self.cfg);
        v.push(sec(14, 0, 6));
        v
    }
    fn rule(&self) -> String {
        "instance with slots -> start schedule (half of the cases: min-cost-flow start with improved depots as in the server; else a poor valid fleet spawned through the public API: one vehicle per trip and needed unit, or greedy chains ignoring maintenance) -> real local search (build_local_search_solver) with every accepted step recorded by hook H3: each step strictly improves (unserved, violation, vehicles, costs) lexicographically, the result is the last step, a fresh solver run on the result records no step and returns the same schedule, also when it is told that some other vehicle provided / received last (up to four rotations of the scan order); plus: for schedules taken from a random API history the implementation's objective order equals the lexicographic order of the four getters; distinct = tape digest; non-trivial = trajectory with >= 2 steps in which some lower level got worse while a higher one improved".to_string()
    }
    fn assumptions(&self) -> Vec<String> {
        vec!["the acceptance rule lives in the external crate rapid_solve; oracle 1 observes its effect".into(), "the fixpoint oracle is sound although the search is parallel: ParallelMinimizer scans the whole neighbourhood, the existence of an improving neighbour does not depend on iteration order".into()]
    }
    fn max_shrink_iters(&self) -> u32 {
        300
    }
    fn max_shrink_time_ms(&self) -> u32 {
        180_000
    }

    fn eval(&self, tape: &Tape) -> CaseOutcome {
        let mut o = CaseOutcome::new(tape.digest());
        let inst = decode_inst(tape, &self.cfg, "");
        let input = inst.to_json();
        let cx = match sut::catch(|| Ctx::load(&input)) {
            Ok(Ok(c)) => c,
            _ => {
                o.excluded = Some("cannot load".into());
                return o;
            }
        };
        o.classes = inst_classes(&cx.flat).iter().map(|s| s.to_string()).collect();
        let mut fs: Vec<Finding> = Vec::new();
        let net = cx.net.clone();
        // start schedule: the min-cost-flow solution (as the server does it), or a deliberately poor
        // valid fleet built through the public API (one vehicle per trip and needed unit / greedy
        // first-fit chains that ignore maintenance) so that the search has many steps to make
        let pr: &[u32] = tape.sec(S_PARAMS).first().map(|r| r.as_slice()).unwrap_or(&[]);
        let start_mode = pick_w(f(pr, 18), &[2, 1, 1]);
        let built = sut::catch(|| match start_mode {
            0 => solver::min_cost_flow_solver::MinCostFlowSolver::initialize(net.clone()).solve().improve_depots(None),
            1 => {
                let mut s = Schedule::empty(net.clone());
                for i in 0..cx.flat.segs.len() {
                    for _ in 0..cx.flat.required(i) {
                        if let Ok((next, _)) = s.spawn_vehicle_for_path(cx.types[cx.flat.segs[i].vtype], vec![cx.act_node[&Act::Seg(i)]]) {
                            s = next;
                        }
                    }
                }
                s
            }
            _ => {
                let mut s = Schedule::empty(net.clone());
                for chain in greedy_chains(&cx) {
                    let nodes: Vec<_> = chain.1.iter().map(|a| cx.act_node[a]).collect();
                    if let Ok((next, _)) = s.spawn_vehicle_for_path(cx.types[chain.0], nodes) {
                        s = next;
                    }
                }
                s
            }
        });
        let start = match built {
            Ok(s) => s,
            Err(p) => {
                o.excluded = Some(format!("start solution panics at {}", p.file()));
                return o;
            }
        };
        o.classes.push(["start=min_cost_flow", "start=one_vehicle_per_trip", "start=greedy_chains"][start_mode].into());
        let v0 = cx.tuple(&start);
        // ---- oracle 1: trajectory
        let run_with = |s: Schedule, info: SwapInfo| -> Result<(Schedule, Vec<Schedule>), sut::PanicInfo> {
            sut::catch(|| {
                solution::verif::enable();
                let solver = solver::local_search::build_local_search_solver(net.clone());
                let res = solver.solve(ScheduleWithInfo::new(s, info, String::new()));
                let steps: Vec<Schedule> = solution::verif::take().into_iter().filter(|(l, _)| l == "ls_step").map(|(_, s)| s).collect();
                (res.solution().get_schedule().clone(), steps)
            })
        };
        let run = |s: Schedule| run_with(s, SwapInfo::NoSwap);
        let (result, steps) = match run(start.clone()) {
            Ok(x) => x,
            Err(p) => {
                fs.push(Finding { prop: "C11", msg: format!("PANIC inside the local search at {}: {}", p.file(), p.msg.chars().take(200).collect::<String>()) });
                o.findings = fs;
                o.sample = json!({"instance": cx.flat.summary()});
                return o;
            }
        };
        let mut traj = vec![v0];
        for s in &steps {
            traj.push(cx.tuple(s));
        }
        let mut conflicting = false;
        for w in traj.windows(2) {
            if !lex_improves(&w[1], &w[0]) {
                fs.push(Finding { prop: "C08", msg: format!("accepted step does not strictly improve (unserved, violation, vehicles, costs): {:?} -> {:?} (trajectory {:?})", w[0], w[1], traj) });
                break;
            }
            // a lower level got worse while a higher one improved
            let first_diff = (0..4).find(|i| w[0][*i] != w[1][*i]).unwrap_or(3);
            if (first_diff + 1..4).any(|i| w[1][i] > w[0][i]) {
                conflicting = true;
            }
        }
        let last = steps.last().unwrap_or(&start);
        if snap(&cx, &result) != snap(&cx, last) {
            fs.push(Finding { prop: "C08", msg: format!("the returned schedule {:?} is not the last accepted step {:?} (start {:?})", cx.tuple(&result), cx.tuple(last), v0) });
        }
        if cx.tuple(&result) > v0 {
            fs.push(Finding { prop: "C08", msg: format!("search result {:?} is worse than the start solution {:?}", cx.tuple(&result), v0) });
        }
        // ---- oracle 2: fixpoint
        if fs.is_empty() {
            match run(result.clone()) {
                Ok((again, steps2)) => {
                    if !steps2.is_empty() || snap(&cx, &again) != snap(&cx, &result) {
                        fs.push(Finding { prop: "C08", msg: format!("the search stopped at {:?} although it can still improve: a second run accepts {} more step(s) and reaches {:?}", cx.tuple(&result), steps2.len(), cx.tuple(&again)) });
                    }
                }
                Err(p) => fs.push(Finding { prop: "C11", msg: format!("PANIC inside the local search (re-run) at {}: {}", p.file(), p.msg.chars().take(200).collect::<String>()) }),
            }
        }
        // ---- oracle 2b: the fixpoint does not depend on which vehicle acted last. The last-swap
        // info only rotates the order in which the neighbourhood is scanned (the whole
        // neighbourhood is scanned and its best member taken), so a re-run that is told another
        // last provider / receiver must not find anything either.
        let mut rotations = 0u64;
        if fs.is_empty() {
            let sn = snap(&cx, &result);
            let tours: Vec<model::base_types::VehicleIdx> = sn.dummies.keys().copied().chain(sn.vehicles.keys().copied()).collect();
            let n = tours.len();
            if n >= 2 {
                let off = pick(f(pr, 19), n);
                let k_max = 4.min(n);
                for k in 0..k_max {
                    let v = tours[(off + k * n / k_max) % n];
                    let info = match (k, pick(f(pr, 19) << 8, 4)) {
                        (3, 1) => SwapInfo::SpawnVehicleForMaintenance(v),
                        (3, 2) => SwapInfo::AddTripForHitchHiking(v),
                        (3, 3) => SwapInfo::RemoveSingleNode(v),
                        _ => SwapInfo::PathExchange(v),
                    };
                    rotations += 1;
                    let info_name = match info {
                        SwapInfo::SpawnVehicleForMaintenance(v) => format!("SpawnVehicleForMaintenance({})", v),
                        SwapInfo::PathExchange(v) => format!("PathExchange({})", v),
                        SwapInfo::AddTripForHitchHiking(v) => format!("AddTripForHitchHiking({})", v),
                        SwapInfo::RemoveSingleNode(v) => format!("RemoveSingleNode({})", v),
                        SwapInfo::NoSwap => "NoSwap".to_string(),
                    };
                    match run_with(result.clone(), info) {
                        Ok((again, steps2)) => {
                            if !steps2.is_empty() || snap(&cx, &again) != snap(&cx, &result) {
                                fs.push(Finding { prop: "C08", msg: format!("the search stopped at {:?} although it can still improve: a re-run that is told the last swap was {} ({} tours) accepts {} more step(s) and reaches {:?}", cx.tuple(&result), info_name, n, steps2.len(), cx.tuple(&again)) });
                                break;
                            }
                        }
                        Err(p) => {
                            fs.push(Finding { prop: "C11", msg: format!("PANIC inside the local search (re-run with {}) at {}: {}", info_name, p.file(), p.msg.chars().take(200).collect::<String>()) });
                            break;
                        }
                    }
                }
            }
        }
        o.counters.insert("fixpoint_reruns_with_rotated_scan_order".into(), rotations);
        // ---- oracle 3: objective order vs lexicographic order on schedules from a random history
        let objective = solver::objective::build();
        let mut pool: Vec<Schedule> = vec![start.clone(), result.clone()];
        pool.extend(steps.iter().cloned());
        let mut cur = start.clone();
        for r in tape.sec(S_OPS) {
            let mut dummy_fs = Vec::new();
            let (_rep, next) = self.hist.step_public(&cx, &cur, r, &mut dummy_fs);
            if let Some(s) = next {
                pool.push(s.clone());
                cur = s;
            }
        }
        let mut pairs = 0u64;
        let mut opposed = 0u64;
        let evals: Vec<_> = pool.iter().map(|s| (cx.tuple(s), objective.evaluate(ScheduleWithInfo::new(s.clone(), SwapInfo::NoSwap, String::new())))).collect();
        for (i, a) in evals.iter().enumerate() {
            for b in evals.iter().skip(i + 1) {
                pairs += 1;
                let want = a.0.cmp(&b.0);
                let got = a.1.objective_value().partial_cmp(b.1.objective_value());
                if got != Some(want) {
                    fs.push(Finding { prop: "C08", msg: format!("objective order {:?} of two schedules differs from the documented priority order {:?}: tuples {:?} vs {:?}", got, want, a.0, b.0) });
                }
                let diffs: Vec<i64> = (0..4).map(|k| (a.0[k] - b.0[k]).signum()).filter(|x| *x != 0).collect();
                if diffs.len() >= 2 && diffs.iter().any(|x| *x > 0) && diffs.iter().any(|x| *x < 0) {
                    opposed += 1;
                }
            }
            if fs.len() > 3 {
                break;
            }
        }
        o.counters.insert("objective_pairs".into(), pairs);
        o.counters.insert("objective_pairs_with_opposed_levels".into(), opposed);
        o.counters.insert("ls_steps".into(), steps.len() as u64);
        let providers = snap(&cx, &result);
        let n_providers = providers.vehicles.len() + providers.dummies.len();
        if n_providers > 32 {
            o.classes.push("result_with_more_than_32_tours".into());
        } else if n_providers > 16 {
            o.classes.push("result_with_17_to_32_tours".into());
        }
        if steps.len() >= 2 {
            o.classes.push("trajectory>=2_steps".into());
        }
        if conflicting {
            o.classes.push("step_trading_levels".into());
        }
        o.nontrivial = steps.len() >= 2 && conflicting;
        o.sample = json!({"instance": cx.flat.summary(), "trajectory": traj, "objective_pairs": pairs});
        o.findings = fs;
        o
    }
}
