//! Reference semantics written from the property statements (not from the implementation):
//! reachability over nodes (O-TIME + the documented depot rule), R-INSERT, R-REMOVE.

use crate::inst::*;
use crate::sut::Ctx;
use model::base_types::NodeIdx;

#[derive(Clone, Copy, Debug, PartialEq, Eq)]
pub enum Kind {
    Start,
    End,
    Act,
}

pub fn kind(cx: &Ctx, n: NodeIdx) -> Kind {
    match cx.node_depot.get(&n) {
        Some((_, true)) => Kind::Start,
        Some((_, false)) => Kind::End,
        None => Kind::Act,
    }
}

/// documented rule: start depots reach everything but start depots, everything but end depots
/// reaches end depots, activities follow O-TIME
pub fn reach(cx: &Ctx, a: NodeIdx, b: NodeIdx) -> bool {
    match (kind(cx, a), kind(cx, b)) {
        (_, Kind::Start) | (Kind::End, _) => false,
        (Kind::Start, _) | (_, Kind::End) => true,
        (Kind::Act, Kind::Act) => a != b && cx.flat.connectable(cx.node_act[&a], cx.node_act[&b]),
    }
}

pub fn is_depot(cx: &Ctx, n: NodeIdx) -> bool {
    kind(cx, n) != Kind::Act
}

/// R-INSERT: (new tour, dropped nodes). `tour` is a valid tour (or dummy tour), `path` a valid path.
pub fn r_insert(cx: &Ctx, tour: &[NodeIdx], path: &[NodeIdx], dummy: bool) -> (Vec<NodeIdx>, Vec<NodeIdx>) {
    let mut path: Vec<NodeIdx> = path.to_vec();
    if dummy {
        if path.first().map(|n| is_depot(cx, *n)).unwrap_or(false) {
            path.remove(0);
        }
        if path.last().map(|n| is_depot(cx, *n)).unwrap_or(false) {
            path.pop();
        }
    }
    let first = path[0];
    let last = path[path.len() - 1];
    // longest prefix whose last node can reach the path (a leading depot replaces the tour's depot)
    let p = if kind(cx, first) == Kind::Start {
        0
    } else {
        (0..=tour.len()).rev().find(|&p| p == 0 || reach(cx, tour[p - 1], first)).unwrap()
    };
    // longest suffix whose first node the path can reach (a trailing depot replaces the tour's depot)
    let q = if kind(cx, last) == Kind::End {
        tour.len()
    } else {
        (p..=tour.len()).find(|&q| q == tour.len() || reach(cx, last, tour[q])).unwrap()
    };
    let mut new_tour: Vec<NodeIdx> = tour[..p].to_vec();
    new_tour.extend(path.iter().copied());
    new_tour.extend(tour[q..].iter().copied());
    (new_tour, tour[p..q].to_vec())
}

/// R-REMOVE of positions i..=j: Err if refused, Ok(None) if no activity is left, Ok(Some(rest)).
pub fn r_remove(cx: &Ctx, tour: &[NodeIdx], i: usize, j: usize, dummy: bool) -> Result<Option<Vec<NodeIdx>>, &'static str> {
    if i > j {
        return Err("positions reversed");
    }
    let mut rest: Vec<NodeIdx> = tour[..i].to_vec();
    rest.extend(tour[j + 1..].iter().copied());
    let acts_left = rest.iter().filter(|n| !is_depot(cx, **n)).count();
    if acts_left == 0 {
        // removing everything (with both depots, one of them, or none): the tour vanishes. A real
        // tour may not lose exactly one depot while activities stay -- no activities stay here.
        return Ok(None);
    }
    if !dummy {
        let removes_start = i == 0;
        let removes_end = j == tour.len() - 1;
        if removes_start || removes_end {
            return Err("would strand a depot");
        }
    }
    if i > 0 && j + 1 < tour.len() && !reach(cx, tour[i - 1], tour[j + 1]) {
        return Err("unconnectable gap");
    }
    Ok(Some(rest))
}
