//! rsv: property-based testing / fuzzing harness for rssched-solver (see /verif/DESIGN.md)
pub mod engine_history;
pub mod engine_http;
pub mod engine_loader;
pub mod engine_mcf;
pub mod engine_pipeline;
pub mod engine_search;
pub mod engine_tour;
pub mod engine_transition;
pub mod gen_inst;
pub mod inst;
pub mod ojson;
pub mod osched;
pub mod refmodel;
pub mod runner;
pub mod sut;
pub mod tape;
pub mod fuzz_support;
