//! The harness' own reading of a problem instance (README "Input format").
//!
//! `Inst` is parsed from the *input JSON text* with the harness' own code and the oracles derive
//! everything (segments, slots, depots, timing rule, limits, costs) from it — never from the data
//! structures of the system under test.

use serde_json::{json, Map, Value};
use std::collections::HashMap;

pub const INF_DISTANCE: i64 = 10_000_000; // documented constant (model/src/base_types.rs)
pub const MAX_DISTANCE: u64 = 1_000_000; // documented clamp for dead-head distances
pub const OVERFLOW: &str = "OVERFLOW_DEPOT";

#[derive(Clone, Debug)]
pub struct VType {
    pub id: String,
    pub capacity: u64,
    pub seats: u64,
    pub max_form: Option<u64>,
}
#[derive(Clone, Debug)]
pub struct DepotIn {
    pub id: String,
    pub location: String,
    pub capacity: u64,
    pub allowed: Vec<(String, Option<u64>)>,
}
#[derive(Clone, Debug)]
pub struct RSeg {
    pub id: String,
    pub order: u64,
    pub origin: String,
    pub destination: String,
    pub distance: u64,
    pub duration: u64,
    pub max_form: Option<u64>,
}
#[derive(Clone, Debug)]
pub struct Route {
    pub id: String,
    pub vtype: String,
    pub segs: Vec<RSeg>,
}
#[derive(Clone, Debug)]
pub struct DSeg {
    pub id: String,
    pub rseg: String,
    pub departure: String,
    pub passengers: u64,
    pub seated: u64,
}
#[derive(Clone, Debug)]
pub struct Departure {
    pub id: String,
    pub route: String,
    pub segs: Vec<DSeg>,
}
#[derive(Clone, Debug)]
pub struct SlotIn {
    pub id: String,
    pub location: String,
    pub start: String,
    pub end: String,
    pub tracks: u64,
}
#[derive(Clone, Debug)]
pub struct Costs {
    pub staff: u64,
    pub service: u64,
    pub maintenance: Option<u64>,
    pub dead_head: u64,
    pub idle: u64,
}
#[derive(Clone, Debug)]
pub struct Inst {
    pub types: Vec<VType>,
    pub locs: Vec<String>,
    pub depots: Option<Vec<DepotIn>>,
    pub routes: Vec<Route>,
    pub departures: Vec<Departure>,
    pub slots: Option<Vec<SlotIn>>,
    pub dh_indices: Vec<String>,
    pub dh_durations: Vec<Vec<u64>>,
    pub dh_distances: Vec<Vec<u64>>,
    pub forbid: Option<bool>,
    pub shunt_min: u64,
    pub shunt_dh: u64,
    pub max_distance: Option<u64>, // parameters.maintenance absent => None
    pub costs: Costs,
    /// null-vs-absent flag for optional keys when writing JSON (both are documented inputs:
    /// model/resources/small_test_input_with_null_values.json)
    pub nulls: bool,
    /// optional `dayLimit` per location (present in the shipped example; stored by the loader)
    pub day_limits: Vec<Option<u64>>,
}

// ---------------------------------------------------------------------------------------------
// calendar arithmetic (own implementation; proleptic Gregorian, no time zones)
// ---------------------------------------------------------------------------------------------

pub fn days_from_civil(y: i64, m: i64, d: i64) -> i64 {
    let y = if m <= 2 { y - 1 } else { y };
    let era = if y >= 0 { y } else { y - 399 } / 400;
    let yoe = y - era * 400;
    let mp = (m + 9) % 12;
    let doy = (153 * mp + 2) / 5 + d - 1;
    let doe = yoe * 365 + yoe / 4 - yoe / 100 + doy;
    era * 146097 + doe - 719468
}

pub fn civil_from_days(z: i64) -> (i64, i64, i64) {
    let z = z + 719468;
    let era = if z >= 0 { z } else { z - 146096 } / 146097;
    let doe = z - era * 146097;
    let yoe = (doe - doe / 1460 + doe / 36524 - doe / 146096) / 365;
    let y = yoe + era * 400;
    let doy = doe - (365 * yoe + yoe / 4 - yoe / 100);
    let mp = (5 * doy + 2) / 153;
    let d = doy - (153 * mp + 2) / 5 + 1;
    let m = if mp < 10 { mp + 3 } else { mp - 9 };
    (if m <= 2 { y + 1 } else { y }, m, d)
}

/// seconds since 1970-01-01T00:00:00; accepts the forms the loader documents
/// ("2009-06-15T13:45:13", "2009-4-15T12:10"). `None` if not a time.
pub fn parse_time(s: &str) -> Option<i64> {
    let s = s.replace('Z', "");
    let parts: Vec<&str> = s.split(|c| c == 'T' || c == '-' || c == ' ' || c == ':').collect();
    if parts.len() < 5 || parts.len() > 6 {
        return None;
    }
    let n: Vec<i64> = parts.iter().map(|p| p.parse::<i64>().ok()).collect::<Option<Vec<_>>>()?;
    let sec = if n.len() == 6 { n[5] } else { 0 };
    Some(days_from_civil(n[0], n[1], n[2]) * 86400 + n[3] * 3600 + n[4] * 60 + sec)
}

/// the loader also documents the short form "2009-4-15T12:10" (no padding, no seconds)
pub fn fmt_time_short(t: i64) -> String {
    let days = t.div_euclid(86400);
    let s = t.rem_euclid(86400);
    if s % 60 != 0 {
        return fmt_time(t);
    }
    let (y, m, d) = civil_from_days(days);
    format!("{}-{}-{}T{}:{}", y, m, d, s / 3600, (s / 60) % 60)
}

pub fn fmt_time(t: i64) -> String {
    let days = t.div_euclid(86400);
    let s = t.rem_euclid(86400);
    let (y, m, d) = civil_from_days(days);
    format!("{:04}-{:02}-{:02}T{:02}:{:02}:{:02}", y, m, d, s / 3600, (s / 60) % 60, s % 60)
}

/// Output instants: a time, or the literals used on overflow-depot legs.
#[derive(Clone, Copy, Debug, PartialEq, Eq, PartialOrd, Ord)]
pub enum Inst64 {
    Earliest,
    At(i64),
    Latest,
}
pub fn parse_out_time(s: &str) -> Option<Inst64> {
    match s {
        "EARLIEST" => Some(Inst64::Earliest),
        "LATEST" => Some(Inst64::Latest),
        _ => parse_time(s).map(Inst64::At),
    }
}

// ---------------------------------------------------------------------------------------------
// JSON <-> Inst
// ---------------------------------------------------------------------------------------------

fn opt_u64(v: &Value, key: &str) -> Option<u64> {
    v.get(key).and_then(|x| x.as_u64())
}
fn req_u64(v: &Value, key: &str) -> Result<u64, String> {
    v.get(key).and_then(|x| x.as_u64()).ok_or_else(|| format!("missing integer {}", key))
}
fn req_str(v: &Value, key: &str) -> Result<String, String> {
    v.get(key).and_then(|x| x.as_str()).map(|s| s.to_string()).ok_or_else(|| format!("missing string {}", key))
}
fn req_arr<'a>(v: &'a Value, key: &str) -> Result<&'a Vec<Value>, String> {
    v.get(key).and_then(|x| x.as_array()).ok_or_else(|| format!("missing array {}", key))
}

impl Inst {
    pub fn from_json(v: &Value) -> Result<Inst, String> {
        let mut types = Vec::new();
        for t in req_arr(v, "vehicleTypes")? {
            types.push(VType {
                id: req_str(t, "id")?,
                capacity: req_u64(t, "capacity")?,
                seats: req_u64(t, "seats")?,
                max_form: opt_u64(t, "maximalFormationCount"),
            });
        }
        let mut locs = Vec::new();
        for l in req_arr(v, "locations")? {
            locs.push(req_str(l, "id")?);
        }
        let depots = match v.get("depots") {
            None | Some(Value::Null) => None,
            Some(d) => {
                let mut out = Vec::new();
                for x in d.as_array().ok_or("depots not array")? {
                    let mut allowed = Vec::new();
                    for a in req_arr(x, "allowedTypes")? {
                        allowed.push((req_str(a, "vehicleType")?, opt_u64(a, "capacity")));
                    }
                    out.push(DepotIn {
                        id: req_str(x, "id")?,
                        location: req_str(x, "location")?,
                        capacity: req_u64(x, "capacity")?,
                        allowed,
                    });
                }
                Some(out)
            }
        };
        let mut routes = Vec::new();
        for r in req_arr(v, "routes")? {
            let mut segs = Vec::new();
            for s in req_arr(r, "segments")? {
                segs.push(RSeg {
                    id: req_str(s, "id")?,
                    order: req_u64(s, "order")?,
                    origin: req_str(s, "origin")?,
                    destination: req_str(s, "destination")?,
                    distance: req_u64(s, "distance")?,
                    duration: req_u64(s, "duration")?,
                    max_form: opt_u64(s, "maximalFormationCount"),
                });
            }
            routes.push(Route { id: req_str(r, "id")?, vtype: req_str(r, "vehicleType")?, segs });
        }
        let mut departures = Vec::new();
        for d in req_arr(v, "departures")? {
            let mut segs = Vec::new();
            for s in req_arr(d, "segments")? {
                segs.push(DSeg {
                    id: req_str(s, "id")?,
                    rseg: req_str(s, "routeSegment")?,
                    departure: req_str(s, "departure")?,
                    passengers: req_u64(s, "passengers")?,
                    seated: req_u64(s, "seated")?,
                });
            }
            departures.push(Departure { id: req_str(d, "id")?, route: req_str(d, "route")?, segs });
        }
        let slots = match v.get("maintenanceSlots") {
            None | Some(Value::Null) => None,
            Some(d) => {
                let mut out = Vec::new();
                for x in d.as_array().ok_or("maintenanceSlots not array")? {
                    out.push(SlotIn {
                        id: req_str(x, "id")?,
                        location: req_str(x, "location")?,
                        start: req_str(x, "start")?,
                        end: req_str(x, "end")?,
                        tracks: req_u64(x, "trackCount")?,
                    });
                }
                Some(out)
            }
        };
        let dh = v.get("deadHeadTrips").ok_or("missing deadHeadTrips")?;
        let dh_indices: Vec<String> = req_arr(dh, "indices")?.iter().map(|x| x.as_str().unwrap_or("").to_string()).collect();
        let mat = |key: &str| -> Result<Vec<Vec<u64>>, String> {
            let mut m = Vec::new();
            for row in req_arr(dh, key)? {
                m.push(row.as_array().ok_or("row")?.iter().map(|x| x.as_u64().unwrap_or(0)).collect());
            }
            Ok(m)
        };
        let dh_durations = mat("durations")?;
        let dh_distances = mat("distances")?;
        let p = v.get("parameters").ok_or("missing parameters")?;
        let sh = p.get("shunting").ok_or("missing shunting")?;
        let c = p.get("costs").ok_or("missing costs")?;
        Ok(Inst {
            types,
            locs,
            depots,
            routes,
            departures,
            slots,
            dh_indices,
            dh_durations,
            dh_distances,
            forbid: p.get("forbidDeadHeadTrips").and_then(|x| x.as_bool()),
            shunt_min: req_u64(sh, "minimalDuration")?,
            shunt_dh: req_u64(sh, "deadHeadTripDuration")?,
            max_distance: p.get("maintenance").and_then(|m| m.get("maximalDistance")).and_then(|x| x.as_u64()),
            costs: Costs {
                staff: req_u64(c, "staff")?,
                service: req_u64(c, "serviceTrip")?,
                maintenance: opt_u64(c, "maintenance"),
                dead_head: req_u64(c, "deadHeadTrip")?,
                idle: req_u64(c, "idle")?,
            },
            nulls: false,
            day_limits: v.get("locations").and_then(|l| l.as_array()).map(|a| a.iter().map(|x| x.get("dayLimit").and_then(|d| d.as_u64())).collect()).unwrap_or_default(),
        })
    }

    pub fn to_json(&self) -> Value {
        let nulls = self.nulls;
        let put_opt = |m: &mut Map<String, Value>, key: &str, v: Option<u64>| match v {
            Some(x) => {
                m.insert(key.to_string(), json!(x));
            }
            None => {
                if nulls {
                    m.insert(key.to_string(), Value::Null);
                }
            }
        };
        let mut root = Map::new();
        root.insert(
            "vehicleTypes".into(),
            Value::Array(
                self.types
                    .iter()
                    .map(|t| {
                        let mut m = Map::new();
                        m.insert("id".into(), json!(t.id));
                        m.insert("capacity".into(), json!(t.capacity));
                        m.insert("seats".into(), json!(t.seats));
                        put_opt(&mut m, "maximalFormationCount", t.max_form);
                        Value::Object(m)
                    })
                    .collect(),
            ),
        );
        root.insert(
            "locations".into(),
            Value::Array(
                self.locs
                    .iter()
                    .enumerate()
                    .map(|(i, l)| {
                        let mut m = Map::new();
                        m.insert("id".into(), json!(l));
                        put_opt(&mut m, "dayLimit", self.day_limits.get(i).copied().flatten());
                        Value::Object(m)
                    })
                    .collect(),
            ),
        );
        match &self.depots {
            Some(ds) => {
                root.insert(
                    "depots".into(),
                    Value::Array(
                        ds.iter()
                            .map(|d| {
                                json!({
                                    "id": d.id, "location": d.location, "capacity": d.capacity,
                                    "allowedTypes": d.allowed.iter().map(|(t, c)| {
                                        let mut m = Map::new();
                                        m.insert("vehicleType".into(), json!(t));
                                        put_opt(&mut m, "capacity", *c);
                                        Value::Object(m)
                                    }).collect::<Vec<_>>()
                                })
                            })
                            .collect(),
                    ),
                );
            }
            None => {
                if nulls {
                    root.insert("depots".into(), Value::Null);
                }
            }
        }
        root.insert(
            "routes".into(),
            Value::Array(
                self.routes
                    .iter()
                    .map(|r| {
                        json!({"id": r.id, "vehicleType": r.vtype, "segments": r.segs.iter().map(|s| {
                            let mut m = Map::new();
                            m.insert("id".into(), json!(s.id));
                            m.insert("order".into(), json!(s.order));
                            m.insert("origin".into(), json!(s.origin));
                            m.insert("destination".into(), json!(s.destination));
                            m.insert("distance".into(), json!(s.distance));
                            m.insert("duration".into(), json!(s.duration));
                            put_opt(&mut m, "maximalFormationCount", s.max_form);
                            Value::Object(m)
                        }).collect::<Vec<_>>()})
                    })
                    .collect(),
            ),
        );
        root.insert(
            "departures".into(),
            Value::Array(
                self.departures
                    .iter()
                    .map(|d| {
                        json!({"id": d.id, "route": d.route, "segments": d.segs.iter().map(|s| json!({
                            "id": s.id, "routeSegment": s.rseg, "departure": s.departure,
                            "passengers": s.passengers, "seated": s.seated
                        })).collect::<Vec<_>>()})
                    })
                    .collect(),
            ),
        );
        match &self.slots {
            Some(ss) => {
                root.insert(
                    "maintenanceSlots".into(),
                    Value::Array(
                        ss.iter()
                            .map(|s| json!({"id": s.id, "location": s.location, "start": s.start, "end": s.end, "trackCount": s.tracks}))
                            .collect(),
                    ),
                );
            }
            None => {
                if nulls {
                    root.insert("maintenanceSlots".into(), Value::Null);
                }
            }
        }
        root.insert(
            "deadHeadTrips".into(),
            json!({"indices": self.dh_indices, "durations": self.dh_durations, "distances": self.dh_distances}),
        );
        let mut params = Map::new();
        match self.forbid {
            Some(b) => {
                params.insert("forbidDeadHeadTrips".into(), json!(b));
            }
            None => {
                if nulls {
                    params.insert("forbidDeadHeadTrips".into(), Value::Null);
                }
            }
        }
        params.insert("shunting".into(), json!({"minimalDuration": self.shunt_min, "deadHeadTripDuration": self.shunt_dh}));
        match self.max_distance {
            Some(d) => {
                params.insert("maintenance".into(), json!({"maximalDistance": d}));
            }
            None => {
                if nulls {
                    params.insert("maintenance".into(), Value::Null);
                }
            }
        }
        let mut costs = Map::new();
        costs.insert("staff".into(), json!(self.costs.staff));
        costs.insert("serviceTrip".into(), json!(self.costs.service));
        put_opt(&mut costs, "maintenance", self.costs.maintenance);
        costs.insert("deadHeadTrip".into(), json!(self.costs.dead_head));
        costs.insert("idle".into(), json!(self.costs.idle));
        params.insert("costs".into(), Value::Object(costs));
        root.insert("parameters".into(), Value::Object(params));
        Value::Object(root)
    }
}

// ---------------------------------------------------------------------------------------------
// Flat: the derived view the oracles work with
// ---------------------------------------------------------------------------------------------

#[derive(Clone, Debug)]
pub struct FSeg {
    pub id: String,
    pub vtype: usize,
    pub origin: usize,
    pub dest: usize,
    pub dep: i64,
    pub arr: i64,
    pub distance: u64,
    pub passengers: u64, // zero counted as one
    pub seated: u64,
    pub seg_limit: Option<u64>,
    pub lim: Option<u64>, // min over present limits (type, route segment)
    pub need: u64,        // vehicles needed for passengers and seated passengers
}
#[derive(Clone, Debug)]
pub struct FSlot {
    pub id: String,
    pub loc: usize,
    pub start: i64,
    pub end: i64,
    pub tracks: u64,
}
#[derive(Clone, Debug)]
pub struct FDepot {
    pub id: String,
    pub loc: Option<usize>, // None: the overflow depot (nowhere)
    pub total: Option<u64>, // None: unlimited (default depots, overflow)
    pub per_type: Vec<Option<Option<u64>>>, // per type: None = not allowed, Some(None) = no own limit
}

/// An activity (service trip or maintenance slot) as the timing rule sees it.
#[derive(Clone, Copy, Debug, PartialEq, Eq, Hash, PartialOrd, Ord)]
pub enum Act {
    Seg(usize),
    Slot(usize),
}

#[derive(Clone, Debug)]
pub struct Flat {
    pub inst: Inst,
    pub segs: Vec<FSeg>,
    pub slots: Vec<FSlot>,
    pub depots: Vec<FDepot>, // given or default; the overflow depot is the last entry
    pub horizon: u64,        // planning duration, rounded up to whole days (seconds)
    pub dh_dur: Vec<Vec<u64>>, // [loc][loc], clamped to the horizon
    pub dh_dist: Vec<Vec<u64>>, // [loc][loc], clamped to MAX_DISTANCE
    pub forbid: bool,
    pub max_distance: u64,
    pub cost_maint: u64,
    pub seg_by_id: HashMap<String, usize>,
    pub slot_by_id: HashMap<String, usize>,
    pub depot_by_id: HashMap<String, usize>,
    pub type_by_id: HashMap<String, usize>,
    pub loc_by_id: HashMap<String, usize>,
}

fn div_ceil(a: u64, b: u64) -> u64 {
    if b == 0 {
        return u64::MAX;
    }
    (a + b - 1) / b
}

impl Flat {
    pub fn new(inst: &Inst) -> Result<Flat, String> {
        let type_by_id: HashMap<String, usize> = inst.types.iter().enumerate().map(|(i, t)| (t.id.clone(), i)).collect();
        let loc_by_id: HashMap<String, usize> = inst.locs.iter().enumerate().map(|(i, l)| (l.clone(), i)).collect();
        let mut segs = Vec::new();
        for d in &inst.departures {
            let route = inst.routes.iter().find(|r| r.id == d.route).ok_or("dangling route")?;
            let vt = *type_by_id.get(&route.vtype).ok_or("dangling type")?;
            for s in &d.segs {
                let rs = route.segs.iter().find(|x| x.id == s.rseg).ok_or("dangling route segment")?;
                let dep = parse_time(&s.departure).ok_or("bad time")?;
                let t = &inst.types[vt];
                let passengers = s.passengers.max(1);
                let need = div_ceil(passengers, t.capacity).max(div_ceil(s.seated, t.seats));
                let lim = match (t.max_form, rs.max_form) {
                    (Some(a), Some(b)) => Some(a.min(b)),
                    (Some(a), None) => Some(a),
                    (None, Some(b)) => Some(b),
                    (None, None) => None,
                };
                segs.push(FSeg {
                    id: s.id.clone(),
                    vtype: vt,
                    origin: *loc_by_id.get(&rs.origin).ok_or("dangling location")?,
                    dest: *loc_by_id.get(&rs.destination).ok_or("dangling location")?,
                    dep,
                    arr: dep + rs.duration as i64,
                    distance: rs.distance,
                    passengers,
                    seated: s.seated,
                    seg_limit: rs.max_form,
                    lim,
                    need,
                });
            }
        }
        let mut slots = Vec::new();
        if let Some(ss) = &inst.slots {
            for s in ss {
                slots.push(FSlot {
                    id: s.id.clone(),
                    loc: *loc_by_id.get(&s.location).ok_or("dangling location")?,
                    start: parse_time(&s.start).ok_or("bad time")?,
                    end: parse_time(&s.end).ok_or("bad time")?,
                    tracks: s.tracks,
                });
            }
        }
        let earliest = segs.iter().map(|s| s.dep).chain(slots.iter().map(|s| s.start)).min().ok_or("no activity")?;
        let latest = segs.iter().map(|s| s.arr).chain(slots.iter().map(|s| s.end)).max().ok_or("no activity")?;
        let horizon = div_ceil((latest - earliest) as u64, 86400) * 86400;
        let n = inst.locs.len();
        let mut dh_dur = vec![vec![0u64; n]; n];
        let mut dh_dist = vec![vec![0u64; n]; n];
        for (i, a) in inst.dh_indices.iter().enumerate() {
            for (j, b) in inst.dh_indices.iter().enumerate() {
                let (ia, ib) = (*loc_by_id.get(a).ok_or("dangling index")?, *loc_by_id.get(b).ok_or("dangling index")?);
                dh_dur[ia][ib] = inst.dh_durations[i][j].min(horizon);
                dh_dist[ia][ib] = inst.dh_distances[i][j].min(MAX_DISTANCE);
            }
        }
        let nt = inst.types.len();
        let mut depots = Vec::new();
        match &inst.depots {
            None => {
                for (i, l) in inst.locs.iter().enumerate() {
                    depots.push(FDepot { id: format!("depot_{}", l), loc: Some(i), total: None, per_type: vec![Some(None); nt] });
                }
            }
            Some(ds) => {
                for d in ds {
                    let mut per_type = vec![None; nt];
                    for (t, c) in &d.allowed {
                        per_type[*type_by_id.get(t).ok_or("dangling type")?] = Some(*c);
                    }
                    depots.push(FDepot {
                        id: d.id.clone(),
                        loc: Some(*loc_by_id.get(&d.location).ok_or("dangling location")?),
                        total: Some(d.capacity),
                        per_type,
                    });
                }
            }
        }
        depots.push(FDepot { id: OVERFLOW.to_string(), loc: None, total: None, per_type: vec![Some(None); nt] });
        let seg_by_id = segs.iter().enumerate().map(|(i, s)| (s.id.clone(), i)).collect();
        let slot_by_id = slots.iter().enumerate().map(|(i, s)| (s.id.clone(), i)).collect();
        let depot_by_id = depots.iter().enumerate().map(|(i, s)| (s.id.clone(), i)).collect();
        Ok(Flat {
            inst: inst.clone(),
            segs,
            slots,
            depots,
            horizon,
            dh_dur,
            dh_dist,
            forbid: inst.forbid.unwrap_or(false),
            max_distance: inst.max_distance.unwrap_or(0),
            cost_maint: inst.costs.maintenance.unwrap_or(0),
            seg_by_id,
            slot_by_id,
            depot_by_id,
            type_by_id,
            loc_by_id,
        })
    }

    pub fn maintenance_considered(&self) -> bool {
        !self.slots.is_empty()
    }

    pub fn act_start(&self, a: Act) -> i64 {
        match a {
            Act::Seg(i) => self.segs[i].dep,
            Act::Slot(i) => self.slots[i].start,
        }
    }
    pub fn act_end(&self, a: Act) -> i64 {
        match a {
            Act::Seg(i) => self.segs[i].arr,
            Act::Slot(i) => self.slots[i].end,
        }
    }
    pub fn act_start_loc(&self, a: Act) -> usize {
        match a {
            Act::Seg(i) => self.segs[i].origin,
            Act::Slot(i) => self.slots[i].loc,
        }
    }
    pub fn act_end_loc(&self, a: Act) -> usize {
        match a {
            Act::Seg(i) => self.segs[i].dest,
            Act::Slot(i) => self.slots[i].loc,
        }
    }
    pub fn act_id(&self, a: Act) -> &str {
        match a {
            Act::Seg(i) => &self.segs[i].id,
            Act::Slot(i) => &self.slots[i].id,
        }
    }
    pub fn act_distance(&self, a: Act) -> u64 {
        match a {
            Act::Seg(i) => self.segs[i].distance,
            Act::Slot(_) => 0,
        }
    }

    /// O-TIME: the documented timing rule between two activities.
    pub fn connectable(&self, a: Act, b: Act) -> bool {
        let (la, lb) = (self.act_end_loc(a), self.act_start_loc(b));
        if la == lb {
            self.act_end(a) + self.inst.shunt_min as i64 <= self.act_start(b)
        } else {
            !self.forbid && self.act_end(a) + self.dh_dur[la][lb] as i64 + 2 * self.inst.shunt_dh as i64 <= self.act_start(b)
        }
    }

    /// O-TIME restricted to why a pair is (not) connectable; used for coverage classes.
    pub fn pair_class(&self, a: Act, b: Act) -> &'static str {
        let (la, lb) = (self.act_end_loc(a), self.act_start_loc(b));
        let gap = self.act_start(b) - self.act_end(a);
        if la == lb {
            if gap == self.inst.shunt_min as i64 {
                "tie_same_loc"
            } else {
                "same_loc"
            }
        } else if gap == self.dh_dur[la][lb] as i64 + 2 * self.inst.shunt_dh as i64 {
            "tie_dead_head"
        } else {
            "dead_head"
        }
    }

    /// seconds and metres of the leg depot -> activity (None = overflow depot: infinite)
    pub fn leg_from_depot(&self, depot: usize, a: Act) -> Option<(u64, u64)> {
        let l = self.depots[depot].loc?;
        let t = self.act_start_loc(a);
        Some((self.dh_dur[l][t], self.dh_dist[l][t]))
    }
    pub fn leg_to_depot(&self, a: Act, depot: usize) -> Option<(u64, u64)> {
        let l = self.depots[depot].loc?;
        let s = self.act_end_loc(a);
        Some((self.dh_dur[s][l], self.dh_dist[s][l]))
    }
    /// metres of the overnight transfer end depot -> start depot (INF_DISTANCE if either is overflow)
    pub fn depot_transfer(&self, end_depot: usize, start_depot: usize) -> i64 {
        match (self.depots[end_depot].loc, self.depots[start_depot].loc) {
            (Some(a), Some(b)) => self.dh_dist[a][b] as i64,
            _ => INF_DISTANCE,
        }
    }

    /// capacity of a depot for a type: min(per-type or inf, total); not listed => 0; None = unlimited
    pub fn depot_capacity_for(&self, depot: usize, vtype: usize) -> Option<u64> {
        let d = &self.depots[depot];
        match d.per_type[vtype] {
            None => Some(0),
            Some(None) => d.total,
            Some(Some(c)) => Some(match d.total {
                Some(t) => c.min(t),
                None => c,
            }),
        }
    }

    /// costs of one itinerary (own formula, C04): activities in order, between depots sd and ed
    pub fn itinerary_costs(&self, sd: usize, acts: &[Act], ed: usize) -> u64 {
        let c = &self.inst.costs;
        let mut total = 0u64;
        for a in acts {
            let dur = (self.act_end(*a) - self.act_start(*a)) as u64;
            total += dur
                * match a {
                    Act::Seg(_) => c.service,
                    Act::Slot(_) => self.cost_maint,
                };
        }
        if let (Some(first), Some(last)) = (acts.first(), acts.last()) {
            total += self.leg_from_depot(sd, *first).map(|x| x.0).unwrap_or(self.horizon) * c.dead_head;
            total += self.leg_to_depot(*last, ed).map(|x| x.0).unwrap_or(self.horizon) * c.dead_head;
        }
        for w in acts.windows(2) {
            let (la, lb) = (self.act_end_loc(w[0]), self.act_start_loc(w[1]));
            let dh = self.dh_dur[la][lb];
            total += dh * c.dead_head;
            let idle = self.act_start(w[1]) - self.act_end(w[0]) - dh as i64;
            if idle > 0 {
                total += idle as u64 * c.idle;
            }
        }
        total
    }

    /// (service distance, dead-head distance or None if infinite)
    pub fn itinerary_distances(&self, sd: usize, acts: &[Act], ed: usize) -> (u64, Option<u64>) {
        let service: u64 = acts.iter().map(|a| self.act_distance(*a)).sum();
        let mut dh: Option<u64> = Some(0);
        let mut add = |x: Option<u64>| {
            dh = match (dh, x) {
                (Some(a), Some(b)) => Some(a + b),
                _ => None,
            }
        };
        if let (Some(first), Some(last)) = (acts.first(), acts.last()) {
            add(self.leg_from_depot(sd, *first).map(|x| x.1));
            add(self.leg_to_depot(*last, ed).map(|x| x.1));
        }
        for w in acts.windows(2) {
            add(Some(self.dh_dist[self.act_end_loc(w[0])][self.act_start_loc(w[1])]));
        }
        (service, dh)
    }

    /// maintenance counter of one itinerary: total distance (INF_DISTANCE if infinite) minus one
    /// allowance if it visits a slot
    pub fn itinerary_counter(&self, sd: usize, acts: &[Act], ed: usize) -> i64 {
        let (s, dh) = self.itinerary_distances(sd, acts, ed);
        let total = match dh {
            Some(d) => (s + d) as i64,
            None => INF_DISTANCE,
        };
        if acts.iter().any(|a| matches!(a, Act::Slot(_))) {
            total - self.max_distance as i64
        } else {
            total
        }
    }

    /// lower bound of unserved passengers (C07) and per-segment required formation size
    pub fn required(&self, seg: usize) -> u64 {
        let s = &self.segs[seg];
        match s.lim {
            Some(l) => s.need.min(l),
            None => s.need,
        }
    }
    pub fn shortfall(&self, seg: usize, k: u64) -> (u64, u64) {
        let s = &self.segs[seg];
        let t = &self.inst.types[s.vtype];
        (s.passengers.saturating_sub(t.capacity * k), s.seated.saturating_sub(t.seats * k))
    }
    pub fn unserved_lower_bound(&self) -> u64 {
        (0..self.segs.len())
            .map(|i| {
                let (a, b) = self.shortfall(i, self.required(i));
                a + b
            })
            .sum()
    }

    /// short human-readable summary for evidence samples
    pub fn summary(&self) -> Value {
        json!({
            "types": self.inst.types.iter().map(|t| format!("{}(cap {},seats {},limit {:?})", t.id, t.capacity, t.seats, t.max_form)).collect::<Vec<_>>(),
            "locations": self.inst.locs.len(),
            "depots": match &self.inst.depots { None => json!("default"), Some(d) => json!(d.iter().map(|x| format!("{}@{} cap {} {:?}", x.id, x.location, x.capacity, x.allowed)).collect::<Vec<_>>()) },
            "segments": self.segs.iter().map(|s| format!("{} t{} {}->{} {}..{} p{}/s{} need {} lim {:?}", s.id, s.vtype, s.origin, s.dest, fmt_time(s.dep), fmt_time(s.arr), s.passengers, s.seated, s.need, s.lim)).collect::<Vec<_>>(),
            "slots": self.slots.iter().map(|s| format!("{}@{} {}..{} tracks {}", s.id, s.loc, fmt_time(s.start), fmt_time(s.end), s.tracks)).collect::<Vec<_>>(),
            "shunting": [self.inst.shunt_min, self.inst.shunt_dh],
            "forbid": self.inst.forbid,
            "maximalDistance": self.inst.max_distance,
        })
    }
}
