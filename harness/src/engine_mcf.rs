//! mcf engine (C14): the start solution of the real `MinCostFlowSolver` against R-MCF, the harness'
//! own min-cost circulation (lower bounds by the excess transformation, successive shortest
//! paths with Bellman-Ford, i128 costs, lexicographic (vehicles, operating cost) by a big-M that
//! is provably larger than any operating cost).

use crate::gen_inst::*;
use crate::inst::*;
use crate::ojson::Finding;
use crate::osched::tour_view;
use crate::runner::{CaseOutcome, Engine};
use crate::sut::{self, Ctx};
use crate::tape::*;
use model::base_types::NodeIdx;
use serde_json::json;
use std::collections::BTreeMap;

pub struct McfEngine {
    pub cfg: GenCfg,
}

impl McfEngine {
    pub fn new(tier: &str) -> McfEngine {
        let thorough = tier == "thorough";
        let mut cfg = GenCfg::quick();
        cfg.max_departures = if thorough { 7 } else { 5 };
        cfg.max_total_need = if thorough { 30 } else { 20 };
        cfg.giant = true;
        McfEngine { cfg }
    }
}

// ---------------------------------------------------------------------------------------------
// R-MCF
// ---------------------------------------------------------------------------------------------

struct Edge {
    to: usize,
    cap: i64,
    cost: i128,
}

struct Mcf {
    g: Vec<Vec<usize>>,
    e: Vec<Edge>,
}

impl Mcf {
    fn new(n: usize) -> Mcf {
        Mcf { g: vec![Vec::new(); n], e: Vec::new() }
    }
    fn add(&mut self, u: usize, v: usize, cap: i64, cost: i128) {
        self.g[u].push(self.e.len());
        self.e.push(Edge { to: v, cap, cost });
        self.g[v].push(self.e.len());
        self.e.push(Edge { to: u, cap: 0, cost: -cost });
    }
    /// min-cost flow of maximum value from s to t; returns (flow, cost)
    fn run(&mut self, s: usize, t: usize) -> (i64, i128) {
        let n = self.g.len();
        let mut flow = 0i64;
        let mut cost = 0i128;
        loop {
            let mut dist = vec![i128::MAX; n];
            let mut prev: Vec<Option<usize>> = vec![None; n];
            dist[s] = 0;
            // Bellman-Ford
            for _ in 0..n {
                let mut changed = false;
                for u in 0..n {
                    if dist[u] == i128::MAX {
                        continue;
                    }
                    for &ei in &self.g[u] {
                        let ed = &self.e[ei];
                        if ed.cap > 0 && dist[u] + ed.cost < dist[ed.to] {
                            dist[ed.to] = dist[u] + ed.cost;
                            prev[ed.to] = Some(ei);
                            changed = true;
                        }
                    }
                }
                if !changed {
                    break;
                }
            }
            if dist[t] == i128::MAX {
                break;
            }
            let mut push = i64::MAX;
            let mut v = t;
            while v != s {
                let ei = prev[v].unwrap();
                push = push.min(self.e[ei].cap);
                v = self.e[ei ^ 1].to;
            }
            let mut v = t;
            while v != s {
                let ei = prev[v].unwrap();
                self.e[ei].cap -= push;
                self.e[ei ^ 1].cap += push;
                v = self.e[ei ^ 1].to;
            }
            flow += push;
            cost += dist[t] * push as i128;
        }
        (flow, cost)
    }
}

pub const BIG_M: i128 = 1_000_000_000_000_000; // > any operating cost in the explored domain (checked)
const UNCAP: i64 = 1000;

/// Reference optimum for one type: Some((vehicles, operating cost)) or None if infeasible.
pub fn reference_optimum(fl: &Flat, ti: usize, allot: &BTreeMap<usize, u64>) -> Option<(i64, i128)> {
    let segs: Vec<usize> = (0..fl.segs.len()).filter(|i| fl.segs[*i].vtype == ti).collect();
    let slots: Vec<usize> = allot.iter().filter(|(_, c)| **c > 0).map(|(s, _)| *s).collect();
    let acts: Vec<Act> = segs.iter().map(|i| Act::Seg(*i)).chain(slots.iter().map(|i| Act::Slot(*i))).collect();
    let na = acts.len();
    let nd = fl.depots.len();
    // node numbering: act k -> in 2k, out 2k+1; depot d -> in 2na+2d, out 2na+2d+1; then S, T
    let n = 2 * na + 2 * nd + 2;
    let (s, t) = (n - 2, n - 1);
    let mut g = Mcf::new(n);
    let mut excess = vec![0i64; n];
    let mut fixed_cost: i128 = 0;
    let c = &fl.inst.costs;
    let add_lb = |g: &mut Mcf, excess: &mut Vec<i64>, fixed: &mut i128, u: usize, v: usize, lb: i64, ub: i64, cost: i128| {
        excess[v] += lb;
        excess[u] -= lb;
        *fixed += lb as i128 * cost;
        g.add(u, v, ub - lb, cost);
    };
    for (k, a) in acts.iter().enumerate() {
        let dur = (fl.act_end(*a) - fl.act_start(*a)) as i128;
        match a {
            Act::Seg(i) => {
                let lb = fl.required(*i) as i64;
                let ub = fl.segs[*i].lim.map(|l| l as i64).unwrap_or(UNCAP);
                add_lb(&mut g, &mut excess, &mut fixed_cost, 2 * k, 2 * k + 1, lb, ub, dur * c.service as i128);
            }
            Act::Slot(i) => {
                let cnt = allot[i] as i64;
                add_lb(&mut g, &mut excess, &mut fixed_cost, 2 * k, 2 * k + 1, cnt, cnt, dur * fl.cost_maint as i128);
            }
        }
    }
    for (k, a) in acts.iter().enumerate() {
        for (l, b) in acts.iter().enumerate() {
            if k != l && fl.connectable(*a, *b) {
                let dh = fl.dh_dur[fl.act_end_loc(*a)][fl.act_start_loc(*b)] as i128;
                let idle = (fl.act_start(*b) - fl.act_end(*a)) as i128 - dh;
                let cost = dh * c.dead_head as i128 + idle.max(0) * c.idle as i128;
                g.add(2 * k + 1, 2 * l, UNCAP, cost);
            }
        }
    }
    for d in 0..nd {
        let (din, dout) = (2 * na + 2 * d, 2 * na + 2 * d + 1);
        let cap = fl.depot_capacity_for(d, ti).map(|x| x as i64).unwrap_or(UNCAP).min(UNCAP);
        g.add(din, dout, cap, BIG_M);
        for (k, a) in acts.iter().enumerate() {
            let from = fl.leg_from_depot(d, *a).map(|x| x.0).unwrap_or(fl.horizon) as i128;
            g.add(dout, 2 * k, UNCAP, from * c.dead_head as i128);
            let to = fl.leg_to_depot(*a, d).map(|x| x.0).unwrap_or(fl.horizon) as i128;
            g.add(2 * k + 1, din, UNCAP, to * c.dead_head as i128);
        }
    }
    let mut need = 0i64;
    for v in 0..n - 2 {
        if excess[v] > 0 {
            g.add(s, v, excess[v], 0);
            need += excess[v];
        } else if excess[v] < 0 {
            g.add(v, t, -excess[v], 0);
        }
    }
    let (flow, cost) = g.run(s, t);
    if flow != need {
        return None;
    }
    let total = cost + fixed_cost;
    let vehicles = (total / BIG_M) as i64;
    let operating = total % BIG_M;
    Some((vehicles, operating))
}

impl Engine for McfEngine {
    fn name(&self) -> &'static str {
        "mcf"
    }
    fn specs(&self) -> Vec<SecSpec> {
        inst_specs(&self.cfg)
    }
    fn rule(&self) -> String {
        "G-INST tapes restricted to the uncoupled domain (one type, or depot totals raised to the sum of the per-type capacities); the real MinCostFlowSolver::solve() result is compared per vehicle type with R-MCF (own min-cost circulation: coverage bounds [min(need,limit), limit], allotted slots exactly, per-type depot capacities, any two O-TIME-connectable activities may follow each other, lexicographic (vehicles, operating cost)); distinct = tape digest; non-trivial = for some type the optimum needs fewer vehicles than it has activities to cover AND (the instance has a pair exactly at a tie OR a slot is allotted to the type)".to_string()
    }
    fn assumptions(&self) -> Vec<String> {
        vec![
            "the circulation is balanced per depot (as many vehicles end in a depot as start there) and limited by the per-type depot capacity".into(),
            "an 'unbounded' formation and uncapacitated arcs carry up to 1000 vehicles (far above the explored fleets, giant-formation cases included: <= 160)".into(),
            "the allotment of maintenance tracks to types is taken from hook H4 (the statement takes it as given)".into(),
            "if the implementation beats the reference without breaking a constraint the case is reported as oracle-suspect (inconclusive), never as violation".into(),
        ]
    }
    fn max_shrink_iters(&self) -> u32 {
        2500
    }

    fn eval(&self, tape: &Tape) -> CaseOutcome {
        let mut o = CaseOutcome::new(tape.digest());
        let mut inst = decode_inst(tape, &self.cfg, "");
        // one case in thirteen: the "staggered banks" family, in which the minimum fleet costs
        // many vehicle-days more than a fleet with one more vehicle
        let pr: &[u32] = tape.sec(S_PARAMS).first().map(|r| r.as_slice()).unwrap_or(&[]);
        let banks = pick_w(f(pr, 21).rotate_left(16), &[12, 1]) == 1;
        if banks {
            make_banks(&mut inst, f(pr, 22), f(pr, 23));
        }
        make_uncoupled(&mut inst);
        let input = inst.to_json();
        let cx = match sut::catch(|| Ctx::load(&input)) {
            Ok(Ok(c)) => c,
            _ => {
                o.excluded = Some("cannot load".into());
                return o;
            }
        };
        let fl = &cx.flat;
        o.classes = inst_classes(fl).iter().map(|s| s.to_string()).collect();
        if banks {
            o.classes.push("staggered_banks".into());
        }
        let solver = solver::min_cost_flow_solver::MinCostFlowSolver::initialize(cx.net.clone());
        let allot_raw = match sut::catch(|| solver.verif_maintenance_allotment()) {
            Ok(a) => a,
            Err(p) => {
                o.excluded = Some(format!("allotment panics: {}", p.msg));
                return o;
            }
        };
        let sched = match sut::catch(|| solver.solve()) {
            Ok(s) => s,
            Err(p) => {
                o.excluded = Some(format!("solve panics at {} (C06 owns crashes)", p.file()));
                o.classes.push("solve_panics".into());
                return o;
            }
        };
        let mut fs: Vec<Finding> = Vec::new();
        let mut nontrivial = false;
        let mut per_type = Vec::new();
        let has_tie = o.classes.iter().any(|c| c == "tie_pair");
        for (ti, vt) in cx.types.iter().enumerate() {
            let mut allot: BTreeMap<usize, u64> = BTreeMap::new();
            if let Some(m) = allot_raw.get(vt) {
                for (n, c) in m {
                    if let Some(Act::Slot(i)) = cx.node_act.get(n) {
                        allot.insert(*i, *c as u64);
                    }
                }
            }
            let vehicles: Vec<_> = sched.vehicles_iter(*vt).collect();
            let mut op_cost: i128 = 0;
            let mut visits: BTreeMap<Act, u64> = BTreeMap::new();
            let mut broken: Vec<String> = Vec::new();
            let mut starts: BTreeMap<usize, i64> = BTreeMap::new();
            let mut ends: BTreeMap<usize, i64> = BTreeMap::new();
            for v in &vehicles {
                let tour = sched.tour_of(*v).unwrap();
                op_cost += tour.costs() as i128;
                let nodes: Vec<NodeIdx> = tour.all_nodes_iter().collect();
                let view = tour_view(&cx, &nodes, false);
                if !view.well_formed {
                    broken.push(format!("tour of {} is malformed: {:?}", v, cx.tour_names(&sched, *v)));
                    continue;
                }
                *starts.entry(view.start_depot.unwrap()).or_insert(0) += 1;
                *ends.entry(view.end_depot.unwrap()).or_insert(0) += 1;
                for w in view.acts.windows(2) {
                    if !fl.connectable(w[0], w[1]) {
                        broken.push(format!("tour of {}: {} -> {} is not connectable under the timing rule", v, fl.act_id(w[0]), fl.act_id(w[1])));
                    }
                }
                for a in &view.acts {
                    *visits.entry(*a).or_insert(0) += 1;
                }
                let own = fl.itinerary_costs(view.start_depot.unwrap(), &view.acts, view.end_depot.unwrap());
                if own != tour.costs() {
                    broken.push(format!("tour of {}: cached costs {} != recomputed {}", v, tour.costs(), own));
                }
            }
            for i in (0..fl.segs.len()).filter(|i| fl.segs[*i].vtype == ti) {
                let k = visits.get(&Act::Seg(i)).copied().unwrap_or(0);
                if k < fl.required(i) {
                    broken.push(format!("segment {} is covered by {} vehicles, required {}", fl.segs[i].id, k, fl.required(i)));
                }
                if let Some(l) = fl.segs[i].lim {
                    if k > l {
                        broken.push(format!("segment {} is covered by {} vehicles, limit {}", fl.segs[i].id, k, l));
                    }
                }
            }
            for (si, sl) in fl.slots.iter().enumerate() {
                let k = visits.get(&Act::Slot(si)).copied().unwrap_or(0);
                let a = allot.get(&si).copied().unwrap_or(0);
                if k != a {
                    broken.push(format!("slot {} hosts {} vehicles of type {} but {} tracks are allotted to the type", sl.id, k, ti, a));
                }
            }
            for (d, n) in &starts {
                if let Some(c) = fl.depot_capacity_for(*d, ti) {
                    if fl.depots[*d].id != OVERFLOW && *n as u64 > c {
                        broken.push(format!("{} vehicles start at depot {} (capacity for the type {})", n, fl.depots[*d].id, c));
                    }
                }
            }
            let reference = reference_optimum(fl, ti, &allot);
            let code = (vehicles.len() as i64, op_cost);
            per_type.push(json!({"type": ti, "code": [code.0, code.1.to_string()], "reference": reference.map(|r| json!([r.0, r.1.to_string()])), "allotment": allot.iter().map(|(k, v)| (fl.slots[*k].id.clone(), *v)).collect::<BTreeMap<_, _>>()}));
            match reference {
                None => {
                    o.inconclusive = Some(format!("oracle-suspect: reference says type {} is infeasible but the solver returned a schedule", ti));
                }
                Some(r) => {
                    if r.1 >= BIG_M / 2 {
                        o.inconclusive = Some("operating cost too close to big-M".into());
                        continue;
                    }
                    let activities: u64 = (0..fl.segs.len()).filter(|i| fl.segs[*i].vtype == ti).map(|i| fl.required(i)).sum::<u64>() + allot.values().sum::<u64>();
                    if (r.0 as u64) < activities && (has_tie || allot.values().any(|c| *c > 0)) {
                        nontrivial = true;
                    }
                    if code == r && broken.is_empty() {
                        continue;
                    }
                    if !broken.is_empty() {
                        fs.push(Finding { prop: "C14", msg: format!("type {}: start solution breaks a constraint of the covering circulation: {} (solver: {} vehicles / cost {}, reference optimum: {} / {})", ti, broken.join("; "), code.0, code.1, r.0, r.1) });
                    } else if code > r {
                        fs.push(Finding { prop: "C14", msg: format!("type {}: start solution is not optimal: {} vehicles with operating cost {}, the reference finds {} vehicles with cost {} (allotment {:?})", ti, code.0, code.1, r.0, r.1, allot) });
                    } else {
                        o.inconclusive = Some(format!("oracle-suspect: solver {:?} beats the reference {:?} for type {} without breaking a checked constraint", code, r, ti));
                    }
                }
            }
        }
        o.nontrivial = nontrivial;
        o.sample = json!({"instance": fl.summary(), "per_type": per_type});
        o.findings = fs;
        o
    }
}
