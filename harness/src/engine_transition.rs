//! transition engine (C15): operation sequences on `Transition` against the reference model
//! R-CYCLES, plus the in/out relation of the transition optimiser.

use crate::engine_history::random_chain;
use crate::gen_inst::*;
use crate::inst::*;
use crate::ojson::Finding;
use crate::osched::tour_view;
use crate::runner::{CaseOutcome, Engine};
use crate::sut::{self, Ctx};
use crate::tape::*;
use im::HashMap as ImHashMap;
use model::base_types::{NodeIdx, VehicleIdx};
use rapid_solve::heuristics::Solver;
use serde_json::json;
use solution::tour::Tour;
use solution::transition::Transition;
use solution::Schedule;
use std::collections::{BTreeMap, BTreeSet};

pub const S_VEH: usize = N_INST_SECS;
pub const S_TOPS: usize = N_INST_SECS + 1;

pub struct TransitionEngine {
    pub cfg: GenCfg,
    pub max_ops: usize,
    pub max_vehicles: usize,
    /// true: this process is the killable child that runs the optimiser relation in-process
    pub optimiser_in_process: bool,
    pub tier: String,
}

impl TransitionEngine {
    pub fn new(tier: &str) -> TransitionEngine {
        let thorough = tier == "thorough";
        let mut cfg = GenCfg::quick();
        cfg.single_type = true;
        cfg.force_slots = true;
        cfg.max_departures = 4;
        cfg.max_need = 2;
        cfg.max_total_need = 100;
        TransitionEngine { cfg, max_ops: if thorough { 30 } else { 10 }, max_vehicles: 6, optimiser_in_process: false, tier: tier.to_string() }
    }
}

/// own recomputation of a tour's maintenance counter and its depots
fn tour_facts(cx: &Ctx, t: &Tour) -> Option<(i64, usize, usize)> {
    let nodes: Vec<NodeIdx> = t.all_nodes_iter().collect();
    let v = tour_view(cx, &nodes, false);
    if !v.well_formed {
        return None;
    }
    let (sd, ed) = (v.start_depot?, v.end_depot?);
    Some((cx.flat.itinerary_counter(sd, &v.acts, ed), sd, ed))
}

pub fn cycle_counter(cx: &Ctx, cycle: &[VehicleIdx], tours: &ImHashMap<VehicleIdx, Tour>) -> Option<i64> {
    let mut c = 0i64;
    for (k, v) in cycle.iter().enumerate() {
        let a = tour_facts(cx, tours.get(v)?)?;
        let b = tour_facts(cx, tours.get(&cycle[(k + 1) % cycle.len()])?)?;
        c += a.0 + cx.flat.depot_transfer(a.2, b.1);
    }
    Some(c)
}

/// compare a Transition with the model; returns findings
pub fn check_transition(cx: &Ctx, t: &Transition, model: &[Vec<VehicleIdx>], tours: &ImHashMap<VehicleIdx, Tour>, ctxt: &str, fs: &mut Vec<Finding>) {
    let got: Vec<Vec<VehicleIdx>> = t.cycles_iter().map(|c| c.get_vec().clone()).collect();
    if got != model {
        fs.push(Finding { prop: "C15", msg: format!("{}: cycles {:?} != reference model {:?}", ctxt, got, model) });
        return;
    }
    let mut total_v = 0i64;
    let mut total_c = 0i64;
    for (i, c) in t.cycles_iter().enumerate() {
        let Some(want) = cycle_counter(cx, c.get_vec(), tours) else { continue };
        if c.maintenance_counter() != want {
            fs.push(Finding { prop: "C15", msg: format!("{}: cycle {} {:?} has maintenance counter {} != recomputed {}", ctxt, i, c.get_vec(), c.maintenance_counter(), want) });
        }
        total_v += want.max(0);
        total_c += want;
    }
    if t.maintenance_violation() != total_v || t.maintenance_counter() != total_c {
        fs.push(Finding { prop: "C15", msg: format!("{}: totals (violation {}, counter {}) != recomputed ({}, {})", ctxt, t.maintenance_violation(), t.maintenance_counter(), total_v, total_c) });
    }
    // lookup and empty-cycle list (hook H2)
    let mut want_lookup: BTreeMap<VehicleIdx, usize> = BTreeMap::new();
    let mut want_empty: BTreeSet<usize> = BTreeSet::new();
    let mut seen: BTreeSet<VehicleIdx> = BTreeSet::new();
    for (i, c) in model.iter().enumerate() {
        if c.is_empty() {
            want_empty.insert(i);
        }
        for v in c {
            if !seen.insert(*v) {
                fs.push(Finding { prop: "C15", msg: format!("{}: vehicle {} is in two cycles: {:?}", ctxt, v, model) });
            }
            want_lookup.insert(*v, i);
        }
    }
    let got_lookup: BTreeMap<VehicleIdx, usize> = t.verif_cycle_lookup().into_iter().collect();
    if got_lookup != want_lookup {
        fs.push(Finding { prop: "C15", msg: format!("{}: vehicle-to-cycle lookup {:?} != {:?} (cycles {:?})", ctxt, got_lookup, want_lookup, model) });
    }
    let empty_list = t.verif_empty_cycles();
    let got_empty: BTreeSet<usize> = empty_list.iter().copied().collect();
    if got_empty != want_empty || got_empty.len() != empty_list.len() {
        fs.push(Finding { prop: "C15", msg: format!("{}: list of reusable empty cycles {:?} != indices of the empty cycles {:?} (cycles {:?})", ctxt, empty_list, want_empty, model) });
    }
    for c in model {
        for (k, v) in c.iter().enumerate() {
            let want = c[(k + 1) % c.len()];
            match sut::catch(|| t.get_successor_of(*v)) {
                Ok(s) if s == want => {}
                Ok(s) => fs.push(Finding { prop: "C15", msg: format!("{}: successor of {} is {} but the cycle {:?} says {}", ctxt, v, s, c, want) }),
                Err(p) => fs.push(Finding { prop: "C15", msg: format!("{}: get_successor_of({}) panics: {}", ctxt, v, p.msg) }),
            }
        }
    }
}

impl Engine for TransitionEngine {
    fn name(&self) -> &'static str {
        "transition"
    }
    fn specs(&self) -> Vec<SecSpec> {
        let mut v = inst_specs(&self.cfg);
        v.push(sec(10, 2, self.max_vehicles));
        v.push(sec(6, 1, self.max_ops));
        v
    }
    fn rule(&self) -> String {
        "one-type instance + 2-6 vehicles spawned through the public API (with/without slot visit, different depots incl. overflow) + a sequence over {new_fast, update_vehicle, add_vehicle_to_own_cycle, remove_vehicle, add_vehicle_at_the_end, move_vehicle, replace_cycle(three_opt), two neighbours updated/removed in a row through updated_tours} with arguments valid in the reference model; after every step cycles, per-cycle counters, totals, successor, lookup and empty-cycle list are compared with R-CYCLES; finally the transition optimiser is run on the reached transition (same vehicles, consistent, (violation, counter) not worse); distinct = tape digest; non-trivial = the sequence empties a cycle and later adds to / creates a cycle, or involves a vehicle with negative counter, and the optimiser input has >= 2 cycles".to_string()
    }
    fn tolerated_inconclusive_fraction(&self) -> f64 {
        0.02
    }
    fn assumptions(&self) -> Vec<String> {
        vec!["operations get arguments that are valid in the model (vehicle present/absent as required, cycle index existing, i<j<k<len for 3-opt)".into(), "which empty cycle add_vehicle_to_own_cycle re-uses is left to the implementation".into()]
    }

    fn eval(&self, tape: &Tape) -> CaseOutcome {
        let mut o = CaseOutcome::new(tape.digest());
        let inst = decode_inst(tape, &self.cfg, "");
        let input = inst.to_json();
        let cx = match sut::catch(|| Ctx::load(&input)) {
            Ok(Ok(c)) => c,
            _ => {
                o.excluded = Some("cannot load".into());
                return o;
            }
        };
        let mut fs: Vec<Finding> = Vec::new();
        let mut log: Vec<String> = Vec::new();
        let nd = cx.depots.len();
        // ---- build the vehicles
        let mut sched = Schedule::empty(cx.net.clone());
        let mut alts: BTreeMap<VehicleIdx, Tour> = BTreeMap::new();
        let built = sut::catch(|| {
            let mut ids = Vec::new();
            for r in tape.sec(S_VEH).iter().take(self.max_vehicles) {
                let mut path = random_chain(&cx, 0, r, 0);
                if path.is_empty() {
                    continue;
                }
                path.insert(0, cx.depots[pick(f(r, 6), nd)].1);
                path.push(cx.depots[pick(f(r, 7), nd)].2);
                if let Ok((s, id)) = sched.spawn_vehicle_for_path(cx.types[0], path) {
                    sched = s;
                    let t = sched.tour_of(id).unwrap();
                    let alt = t.replace_start_depot(cx.depots[pick(f(r, 8), nd)].1).and_then(|t| t.replace_end_depot(cx.depots[pick(f(r, 9), nd)].2));
                    if let Ok(a) = alt {
                        alts.insert(id, a);
                    }
                    ids.push(id);
                }
            }
            ids
        });
        let ids = match built {
            Ok(i) => i,
            Err(p) => {
                o.excluded = Some(format!("building vehicles panics: {}", p.msg));
                return o;
            }
        };
        if ids.len() < 2 {
            o.sample = json!({"instance": cx.flat.summary(), "note": "fewer than two vehicles"});
            return o;
        }
        let mut tours: ImHashMap<VehicleIdx, Tour> = sched.get_tours().clone();
        let negative = ids.iter().any(|v| tour_facts(&cx, &tours[v]).map(|x| x.0 < 0).unwrap_or(false));
        // ---- start transition: the schedule's own one (every vehicle was added to its own cycle)
        let mut t: Transition = sched.next_day_transition_of(cx.types[0]).clone();
        let mut model: Vec<Vec<VehicleIdx>> = t.cycles_iter().map(|c| c.get_vec().clone()).collect();
        check_transition(&cx, &t, &model, &tours, "schedule's own transition", &mut fs);
        let mut emptied = false;
        let mut refilled_after_empty = false;
        let empty_map: ImHashMap<VehicleIdx, &Tour> = ImHashMap::new();

        for r in tape.sec(S_TOPS) {
            if !fs.is_empty() {
                break;
            }
            let present: Vec<VehicleIdx> = model.iter().flatten().copied().collect();
            let absent: Vec<VehicleIdx> = ids.iter().copied().filter(|v| !present.contains(v)).collect();
            let kind = pick_w(f(r, 0), &[1, 3, 3, 4, 3, 4, 3, 4]);
            let descr;
            let res: Result<Option<Transition>, sut::PanicInfo> = match kind {
                0 => {
                    // new_fast over the present vehicles (possibly a subset)
                    let keep: Vec<VehicleIdx> = if pick(f(r, 1), 3) == 0 && present.len() > 1 { present[..present.len() - 1].to_vec() } else { ids.clone() };
                    descr = format!("new_fast({:?})", keep);
                    let r = sut::catch(|| Transition::new_fast(&keep, &tours, &cx.net));
                    if let Ok(nt) = &r {
                        // the clustering is the implementation's choice; it must partition `keep`
                        let got: Vec<Vec<VehicleIdx>> = nt.cycles_iter().map(|c| c.get_vec().clone()).collect();
                        let mut flat: Vec<VehicleIdx> = got.iter().flatten().copied().collect();
                        flat.sort();
                        let mut want = keep.clone();
                        want.sort();
                        if flat != want {
                            fs.push(Finding { prop: "C15", msg: format!("new_fast({:?}) returns cycles {:?} that do not contain each vehicle exactly once", keep, got) });
                        }
                        model = got;
                    }
                    r.map(Some)
                }
                1 => {
                    if present.is_empty() {
                        continue;
                    }
                    let v = present[pick(f(r, 1), present.len())];
                    let Some(alt) = alts.get(&v).cloned() else { continue };
                    descr = format!("update_vehicle({}, alt depots)", v);
                    let r = sut::catch(|| t.update_vehicle(v, &alt, &empty_map, &tours, &cx.net));
                    if r.is_ok() {
                        let old = tours.get(&v).unwrap().clone();
                        tours.insert(v, alt);
                        alts.insert(v, old);
                    }
                    r.map(Some)
                }
                2 => {
                    if absent.is_empty() {
                        continue;
                    }
                    let v = absent[pick(f(r, 1), absent.len())];
                    descr = format!("add_vehicle_to_own_cycle({})", v);
                    let r = sut::catch(|| t.add_vehicle_to_own_cycle(v, &tours[&v], &cx.net));
                    if let Ok(nt) = &r {
                        let got: Vec<Vec<VehicleIdx>> = nt.cycles_iter().map(|c| c.get_vec().clone()).collect();
                        match got.iter().position(|c| c.contains(&v)) {
                            Some(i) if i < model.len() && model[i].is_empty() => {
                                model[i] = vec![v];
                                refilled_after_empty |= emptied;
                            }
                            Some(i) if i == model.len() => {
                                model.push(vec![v]);
                                refilled_after_empty |= emptied;
                            }
                            other => fs.push(Finding { prop: "C15", msg: format!("add_vehicle_to_own_cycle({}): vehicle ended up at cycle index {:?}; cycles before {:?}, after {:?} (a non-empty cycle was overwritten or the vehicle is missing)", v, other, model, got) }),
                        }
                    }
                    r.map(Some)
                }
                3 => {
                    if present.is_empty() {
                        continue;
                    }
                    let v = present[pick(f(r, 1), present.len())];
                    descr = format!("remove_vehicle({})", v);
                    let r = sut::catch(|| t.remove_vehicle(v, &empty_map, &tours, &cx.net));
                    if r.is_ok() {
                        for c in model.iter_mut() {
                            c.retain(|x| *x != v);
                            if c.is_empty() {
                                emptied = true;
                            }
                        }
                    }
                    r.map(Some)
                }
                4 => {
                    if absent.is_empty() || model.is_empty() {
                        continue;
                    }
                    let v = absent[pick(f(r, 1), absent.len())];
                    let c = pick(f(r, 2), model.len());
                    descr = format!("add_vehicle_at_the_end({}, cycle {})", v, c);
                    let r = sut::catch(|| t.add_vehicle_at_the_end(v, c, &empty_map, &tours, &cx.net));
                    if r.is_ok() {
                        if model[c].is_empty() {
                            refilled_after_empty |= emptied;
                        }
                        model[c].push(v);
                    }
                    r.map(Some)
                }
                5 => {
                    if present.is_empty() || model.is_empty() {
                        continue;
                    }
                    let v = present[pick(f(r, 1), present.len())];
                    let c = pick(f(r, 2), model.len());
                    descr = format!("move_vehicle({}, cycle {})", v, c);
                    let r = sut::catch(|| t.move_vehicle(v, c, &tours, &cx.net));
                    if r.is_ok() {
                        for cy in model.iter_mut() {
                            cy.retain(|x| *x != v);
                            if cy.is_empty() {
                                emptied = true;
                            }
                        }
                        if model[c].is_empty() {
                            refilled_after_empty |= emptied;
                        }
                        model[c].push(v);
                    }
                    r.map(Some)
                }
                7 => {
                    // two cycle neighbours changed within ONE modification, the way Schedule does
                    // it: the second call sees the first through `updated_tours`, `old_tours` is
                    // still the map from before both changes
                    let cands: Vec<usize> = (0..model.len()).filter(|i| model[*i].len() >= 2).collect();
                    if cands.is_empty() {
                        continue;
                    }
                    let c = cands[pick(f(r, 1), cands.len())];
                    let n = model[c].len();
                    let i = pick(f(r, 2), n);
                    let (a, b) = (model[c][i], model[c][(i + 1) % n]);
                    let (first, second) = if pick(f(r, 3), 2) == 0 { (b, a) } else { (a, b) };
                    let (Some(alt_first), Some(alt_second)) = (alts.get(&first).cloned(), alts.get(&second).cloned()) else { continue };
                    let remove_second = pick(f(r, 4), 3) == 0;
                    descr = format!("update_vehicle({}) then {}({}) with updated_tours", first, if remove_second { "remove_vehicle" } else { "update_vehicle" }, second);
                    let r = sut::catch(|| {
                        let t1 = t.update_vehicle(first, &alt_first, &empty_map, &tours, &cx.net);
                        let mut upd: ImHashMap<VehicleIdx, &Tour> = ImHashMap::new();
                        upd.insert(first, &alt_first);
                        if remove_second {
                            t1.remove_vehicle(second, &upd, &tours, &cx.net)
                        } else {
                            t1.update_vehicle(second, &alt_second, &upd, &tours, &cx.net)
                        }
                    });
                    if r.is_ok() {
                        let old = tours.get(&first).unwrap().clone();
                        tours.insert(first, alt_first.clone());
                        alts.insert(first, old);
                        if remove_second {
                            for cy in model.iter_mut() {
                                cy.retain(|x| *x != second);
                                if cy.is_empty() {
                                    emptied = true;
                                }
                            }
                        } else {
                            let old2 = tours.get(&second).unwrap().clone();
                            tours.insert(second, alt_second.clone());
                            alts.insert(second, old2);
                        }
                    }
                    r.map(Some)
                }
                _ => {
                    let cands: Vec<usize> = (0..model.len()).filter(|i| model[*i].len() >= 3).collect();
                    if cands.is_empty() {
                        continue;
                    }
                    let c = cands[pick(f(r, 1), cands.len())];
                    let n = model[c].len();
                    let i = pick(f(r, 2), n - 2);
                    let j = i + 1 + pick(f(r, 3), n - 2 - i);
                    let k = j + 1 + pick(f(r, 4), n - 1 - j);
                    descr = format!("replace_cycle({}, three_opt({}, {}, {}))", c, i, j, k);
                    let r = sut::catch(|| {
                        let nc = t.get_cycle(c).three_opt(i, j, k, &tours, &cx.net);
                        t.replace_cycle(c, nc)
                    });
                    if r.is_ok() {
                        let old = model[c].clone();
                        let mut nc: Vec<VehicleIdx> = old[..=i].to_vec();
                        nc.extend(&old[j + 1..=k]);
                        nc.extend(&old[i + 1..=j]);
                        nc.extend(&old[k + 1..]);
                        model[c] = nc;
                    }
                    r.map(Some)
                }
            };
            log.push(descr.clone());
            match res {
                Err(p) => {
                    fs.push(Finding { prop: "C15", msg: format!("PANIC in {} at {}: {} (cycles {:?})", descr, p.file(), p.msg.chars().take(200).collect::<String>(), model) });
                }
                Ok(None) => {}
                Ok(Some(nt)) => {
                    t = nt;
                    let before = fs.len();
                    check_transition(&cx, &t, &model, &tours, &format!("after {}", descr), &mut fs);
                    if fs.len() > before {
                        let hist = log.join("; ");
                        for f in fs[before..].iter_mut() {
                            f.msg = format!("{} [history: {}]", f.msg, hist);
                        }
                    }
                }
            }
        }

        // ---- optimiser relation on the reached transition (all vehicles must be present: the
        // optimiser works on the schedule's tours)
        let mut optimiser_nontrivial = false;
        if fs.is_empty() {
            let present: BTreeSet<VehicleIdx> = model.iter().flatten().copied().collect();
            let all: BTreeSet<VehicleIdx> = ids.iter().copied().collect();
            // tours may have been swapped with their alternatives: rebuild a schedule view through
            // a transition over the *schedule's* tours
            let base: Transition = if present == all && tours.iter().all(|(v, t)| sched.tour_of(*v).map(|x| x.all_nodes_iter().eq(t.all_nodes_iter())).unwrap_or(false)) {
                t.clone()
            } else {
                Transition::new_fast(&ids, sched.get_tours(), &cx.net)
            };
            let stours = sched.get_tours().clone();
            let in_cycles = base.cycles_iter().filter(|c| !c.is_empty()).count();
            optimiser_nontrivial = in_cycles >= 2;
            // any second cycle (also an empty placeholder) makes the optimiser run its cycle search
            let needs_child = base.number_of_cycles() >= 2;
            let input = (base.maintenance_violation(), base.maintenance_counter());
            if needs_child && !self.optimiser_in_process && crate::engine_pipeline::WATCHDOG_EXPIRIES.load(std::sync::atomic::Ordering::SeqCst) >= 4 {
                o.inconclusive = Some("optimiser not executed: circuit breaker after 4 watchdog expiries in this worker".into());
            } else if needs_child && !self.optimiser_in_process {
                // the optimiser can loop forever when a counter is wrong (every fake improvement is
                // accepted): run it in a killable child that re-evaluates this very tape
                use crate::engine_pipeline::{run_child, ChildResult};
                match run_child("checked", &["c15-opt", &self.tier], &tape.to_json().to_string(), std::time::Duration::from_secs(20), &[]) {
                    ChildResult::Answer { output, .. } => {
                        for f in output["findings"].as_array().cloned().unwrap_or_default() {
                            fs.push(Finding { prop: "C15", msg: f.as_str().unwrap_or("").to_string() });
                        }
                        if let Some(l) = output["log"].as_str() {
                            log.push(l.to_string());
                        }
                    }
                    ChildResult::Timeout => {
                        crate::engine_pipeline::WATCHDOG_EXPIRIES.fetch_add(1, std::sync::atomic::Ordering::SeqCst);
                        o.inconclusive = Some("transition optimiser gave no answer within 20 s".into());
                        o.classes.push("optimiser_timeout".into());
                    }
                    ChildResult::Panic { msg, file, .. } => fs.push(Finding { prop: "C15", msg: format!("PANIC in the transition optimiser child at {}: {}", file, msg) }),
                    ChildResult::Broken(e) => o.inconclusive = Some(format!("optimiser child broken: {}", e)),
                }
            } else {
            let res = sut::catch(|| {
                let solver = solver::transition_local_search::build_transition_local_search_solver(&sched, cx.net.clone());
                solver.solve(solver::transition_local_search::TransitionWithInfo::new(base.clone(), String::new())).unwrap().unwrap_transition()
            });
            match res {
                Err(p) => fs.push(Finding { prop: "C15", msg: format!("PANIC in the transition optimiser at {}: {} (input cycles {:?})", p.file(), p.msg.chars().take(200).collect::<String>(), base.cycles_iter().map(|c| c.get_vec().clone()).collect::<Vec<_>>()) }),
                Ok(out) => {
                    let got: Vec<Vec<VehicleIdx>> = out.cycles_iter().map(|c| c.get_vec().clone()).collect();
                    let mut flat: Vec<VehicleIdx> = got.iter().flatten().copied().collect();
                    flat.sort();
                    let mut want: Vec<VehicleIdx> = base.cycles_iter().flat_map(|c| c.get_vec().clone()).collect();
                    want.sort();
                    if flat != want {
                        fs.push(Finding { prop: "C15", msg: format!("transition optimiser returns cycles {:?} over other vehicles than its input {:?}", got, want) });
                    } else {
                        check_transition(&cx, &out, &got, &stours, "transition optimiser result", &mut fs);
                        let outv = (out.maintenance_violation(), out.maintenance_counter());
                        if outv > input {
                            fs.push(Finding { prop: "C15", msg: format!("transition optimiser worsened (violation, counter): {:?} -> {:?}", input, outv) });
                        }
                    }
                    log.push(format!("optimiser: {:?} -> {:?}", input, (out.maintenance_violation(), out.maintenance_counter())));
                }
            }
            }
        }
        o.classes.extend(inst_classes(&cx.flat).iter().map(|s| s.to_string()));
        if emptied {
            o.classes.push("cycle_emptied".into());
        }
        if refilled_after_empty {
            o.classes.push("cycle_refilled_after_empty".into());
        }
        if negative {
            o.classes.push("vehicle_with_negative_counter".into());
        }
        if optimiser_nontrivial {
            o.classes.push("optimiser_input>=2_cycles".into());
        }
        o.nontrivial = (refilled_after_empty || negative) && optimiser_nontrivial;
        o.sample = json!({"instance": cx.flat.summary(), "vehicles": ids.iter().map(|v| format!("{}: {:?}", v, cx.tour_names(&sched, *v))).collect::<Vec<_>>(), "ops": log, "final_cycles": format!("{:?}", model)});
        o.findings = fs;
        o
    }
}

/// child entry: `rsv c15-opt <tier>` -- evaluates the tape on stdin with the optimiser in-process
/// and prints the optimiser-related findings
pub fn c15_opt_main(tier: &str) -> i32 {
    use std::io::Read;
    sut::silence_stdout();
    let mut input = String::new();
    std::io::stdin().read_to_string(&mut input).expect("stdin");
    let v: serde_json::Value = serde_json::from_str(&input).expect("tape json");
    let tape = Tape::from_json(&v).expect("tape");
    let mut e = TransitionEngine::new(tier);
    e.optimiser_in_process = true;
    let res = sut::catch(|| e.eval(&tape));
    match res {
        Ok(o) => {
            let findings: Vec<String> = o.findings.iter().filter(|f| f.msg.contains("optimiser")).map(|f| f.msg.clone()).collect();
            let log = o.sample["ops"].as_array().and_then(|a| a.last().cloned()).unwrap_or(serde_json::Value::Null);
            sut::outln(&json!({"status": "answer", "output": {"findings": findings, "log": log}, "snapshots": []}).to_string());
        }
        Err(p) => sut::outln(&json!({"status": "panic", "msg": p.msg, "loc": p.loc, "file": p.file()}).to_string()),
    }
    0
}

