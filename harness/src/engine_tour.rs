//! tour engine (C12): for one small network, every valid tour x every valid path x every segment
//! of the tour against R-INSERT / R-REMOVE / sub-path extraction; results also go through the
//! per-tour cache recomputation.

use crate::gen_inst::*;
use crate::inst::*;
use crate::ojson::Finding;
use crate::osched;
use crate::refmodel::*;
use crate::runner::{CaseOutcome, Engine};
use crate::sut::{self, Ctx};
use crate::tape::*;
use model::base_types::NodeIdx;
use serde_json::json;
use solution::path::Path;
use solution::segment::Segment;
use solution::tour::Tour;
use solution::Schedule;
use std::collections::BTreeSet;

pub struct TourEngine {
    pub cfg: GenCfg,
    pub max_chains: usize,
    pub max_pairs: usize,
}

impl TourEngine {
    pub fn new(tier: &str) -> TourEngine {
        let thorough = tier == "thorough";
        let mut cfg = GenCfg::quick();
        cfg.small_grid = true;
        cfg.max_departures = if thorough { 4 } else { 3 };
        cfg.max_slots = 2;
        cfg.max_need = 1;
        cfg.max_total_need = 100;
        TourEngine { cfg, max_chains: if thorough { 400 } else { 150 }, max_pairs: if thorough { 60_000 } else { 12_000 } }
    }
}

fn names(cx: &Ctx, nodes: &[NodeIdx]) -> Vec<String> {
    nodes.iter().map(|n| cx.node_name(*n)).collect()
}

/// all chains (as node lists) of the reachability relation among the given activities
fn all_chains(cx: &Ctx, acts: &[Act], cap: usize) -> Vec<Vec<NodeIdx>> {
    let fl = &cx.flat;
    let mut out: Vec<Vec<Act>> = Vec::new();
    let mut stack: Vec<Vec<Act>> = acts.iter().map(|a| vec![*a]).collect();
    stack.reverse();
    while let Some(c) = stack.pop() {
        if out.len() >= cap {
            break;
        }
        let last = *c.last().unwrap();
        for b in acts.iter().rev() {
            if *b != last && !c.contains(b) && fl.connectable(last, *b) {
                let mut n = c.clone();
                n.push(*b);
                stack.push(n);
            }
        }
        out.push(c);
    }
    out.into_iter().map(|c| c.into_iter().map(|a| cx.act_node[&a]).collect()).collect()
}

impl Engine for TourEngine {
    fn name(&self) -> &'static str {
        "tour"
    }
    fn specs(&self) -> Vec<SecSpec> {
        inst_specs(&self.cfg)
    }
    fn rule(&self) -> String {
        "one case = one small network (G-INST small-grid family: <= 9 trips + <= 2 slots on a 6-tick time line, shunting in {0, 1 tick}, dead-heads in {0, 1, 3 ticks}); for it EVERY chain of the reachability relation (capped) is turned into tours (real with a real depot pair and with the overflow pair, and the dummy tour) and into paths (with / without leading start depot and trailing end depot); every (tour, path) pair is inserted and every (tour, i<=j) segment is extracted and removed, each compared with R-INSERT / R-REMOVE and re-validated by cache recomputation; evaluations counts networks, counters.pairs counts the (tour, path)/(tour, segment) pairs; distinct = tape digest; non-trivial = the network has an (inserted path, tour neighbour) tie with zero turnaround or a non-transitive triple around an insertion point".to_string()
    }
    fn assumptions(&self) -> Vec<String> {
        vec!["segments contain >= 1 activity; paths are chains of the reachability relation".into(), "dummy tours whose consecutive trips are not connectable (a slot between them was dropped) are outside 'valid tours' for insertion and removal (counted); sub-path extraction is still checked on them".into(), "chains are capped per network (counted in counters.chains_capped)".into()]
    }
    fn max_shrink_iters(&self) -> u32 {
        600
    }

    fn eval(&self, tape: &Tape) -> CaseOutcome {
        let inst = decode_inst(tape, &self.cfg, "");
        self.eval_inst(&inst, tape.digest())
    }
}

impl TourEngine {
    /// The whole per-network check for an instance given directly (tape runs and the exhaustive
    /// small family both end here).
    pub fn eval_inst(&self, inst: &Inst, digest: u64) -> CaseOutcome {
        let mut o = CaseOutcome::new(digest);
        let input = inst.to_json();
        let cx = match sut::catch(|| Ctx::load(&input)) {
            Ok(Ok(c)) => c,
            _ => {
                o.excluded = Some("cannot load".into());
                return o;
            }
        };
        let fl = &cx.flat;
        o.classes = inst_classes(fl).iter().map(|s| s.to_string()).collect();
        let mut fs: Vec<Finding> = Vec::new();
        let mut pairs = 0u64;
        let mut tie_pair = false;
        let mut nontransitive = false;
        let nd = cx.depots.len();
        let real_depot = if nd >= 2 { Some(0usize) } else { None };
        let mut tours_built = 0u64;

        'types: for ti in 0..fl.inst.types.len() {
            let mut acts: Vec<Act> = (0..fl.segs.len()).filter(|i| fl.segs[*i].vtype == ti).map(Act::Seg).collect();
            acts.extend((0..fl.slots.len()).map(Act::Slot));
            acts.sort_by_key(|a| (fl.act_start(*a), fl.act_end(*a), *a));
            if acts.is_empty() {
                continue;
            }
            let chains = all_chains(&cx, &acts, self.max_chains);
            if chains.len() >= self.max_chains {
                *o.counters.entry("chains_capped".into()).or_insert(0) += 1;
            }
            // ---- tours
            let mut tours: Vec<(Tour, Vec<NodeIdx>, bool)> = Vec::new();
            for c in &chains {
                let mut variants: Vec<Vec<NodeIdx>> = Vec::new();
                if let Some(d) = real_depot {
                    let mut v = vec![cx.depots[d].1];
                    v.extend(c.iter().copied());
                    v.push(cx.depots[(d + 1) % (nd - 1)].2);
                    variants.push(v);
                }
                let mut v = vec![cx.depots[nd - 1].1];
                v.extend(c.iter().copied());
                v.push(cx.depots[nd - 1].2);
                variants.push(v);
                for (k, v) in variants.into_iter().enumerate() {
                    let built = sut::catch(|| {
                        let s = Schedule::empty(cx.net.clone());
                        match s.spawn_vehicle_for_path(cx.types[ti], v.clone()) {
                            Ok((s2, id)) => {
                                let t = s2.tour_of(id).unwrap().clone();
                                let dummy = if k == 0 { s2.replace_vehicle_by_dummy(id).ok().and_then(|s3| s3.dummy_iter().next().and_then(|d| s3.tour_of(d).ok().cloned())) } else { None };
                                Some((t, dummy))
                            }
                            Err(_) => None,
                        }
                    });
                    match built {
                        Ok(Some((t, dummy))) => {
                            let nodes: Vec<NodeIdx> = t.all_nodes_iter().collect();
                            tours.push((t, nodes, false));
                            if let Some(d) = dummy {
                                let nodes: Vec<NodeIdx> = d.all_nodes_iter().collect();
                                // C12 quantifies over valid tours: a dummy tour that lost a slot
                                // between two trips need not be a path; those are counted, not used
                                if nodes.windows(2).all(|w| reach(&cx, w[0], w[1])) {
                                    tours.push((d, nodes, true));
                                } else {
                                    // only "extracting a sub-path of an existing segment always
                                    // succeeds" is checked on them
                                    *o.counters.entry("non_path_dummy_tours_sub_path_only".into()).or_insert(0) += 1;
                                    for i in 0..nodes.len() {
                                        for j in i..nodes.len() {
                                            pairs += 1;
                                            match sut::catch(|| d.sub_path(Segment::new(nodes[i], nodes[j])).map(|p| p.iter().collect::<Vec<_>>())) {
                                                Ok(Ok(got)) if got == nodes[i..=j] => {}
                                                other => fs.push(Finding { prop: "C12", msg: format!("sub_path of an existing segment of the dummy tour {:?} (positions {}..={}) gives {:?}", names(&cx, &nodes), i, j, other.map(|r| r.map(|g| names(&cx, &g))).map_err(|p| p.msg)) }),
                                            }
                                        }
                                    }
                                }
                            }
                        }
                        Ok(None) => {}
                        Err(p) => {
                            fs.push(Finding { prop: "C12", msg: format!("PANIC while building a tour for {:?} at {}: {}", names(&cx, &v), p.file(), p.msg) });
                            break 'types;
                        }
                    }
                }
            }
            tours_built += tours.len() as u64;
            // ---- paths
            let mut paths: Vec<Vec<NodeIdx>> = Vec::new();
            for c in &chains {
                paths.push(c.clone());
                let mut a = vec![cx.depots[nd - 1].1];
                a.extend(c.iter().copied());
                paths.push(a);
                let mut b = c.clone();
                b.push(cx.depots[0].2);
                paths.push(b);
                if let Some(d) = real_depot {
                    let mut v = vec![cx.depots[d].1];
                    v.extend(c.iter().copied());
                    v.push(cx.depots[nd - 1].2);
                    paths.push(v);
                }
            }
            // ---- every (tour, path)
            for (tour, tnodes, dummy) in &tours {
                // sub_path / remove for every segment with >= 1 activity
                for i in 0..tnodes.len() {
                    for j in i..tnodes.len() {
                        if tnodes[i..=j].iter().all(|n| is_depot(&cx, *n)) {
                            continue;
                        }
                        pairs += 1;
                        let seg = Segment::new(tnodes[i], tnodes[j]);
                        match sut::catch(|| tour.sub_path(seg).map(|p| p.iter().collect::<Vec<_>>())) {
                            Ok(Ok(got)) => {
                                if got != tnodes[i..=j] {
                                    fs.push(Finding { prop: "C12", msg: format!("sub_path({}..{}) of {:?} returned {:?}", cx.node_name(tnodes[i]), cx.node_name(tnodes[j]), names(&cx, tnodes), names(&cx, &got)) });
                                }
                            }
                            Ok(Err(e)) => fs.push(Finding { prop: "C12", msg: format!("sub_path of an existing segment fails: tour {:?}, segment {}..{}: {}", names(&cx, tnodes), cx.node_name(tnodes[i]), cx.node_name(tnodes[j]), e) }),
                            Err(p) => fs.push(Finding { prop: "C12", msg: format!("PANIC in sub_path at {}: {}", p.file(), p.msg) }),
                        }
                        let want = r_remove(&cx, tnodes, i, j, *dummy);
                        let got = sut::catch(|| tour.remove(seg).map(|(t, p)| (t.map(|t| t.all_nodes_iter().collect::<Vec<_>>()), p.iter().collect::<Vec<_>>(), tour.check_removable(seg).is_ok())));
                        match (got, &want) {
                            (Err(p), _) => fs.push(Finding { prop: "C12", msg: format!("PANIC in remove at {}: {} (tour {:?}, positions {}..={})", p.file(), p.msg, names(&cx, tnodes), i, j) }),
                            (Ok(Err(_)), Err(_)) => {}
                            (Ok(Err(e)), Ok(_)) => fs.push(Finding { prop: "C12", msg: format!("remove refuses a removable segment: tour {:?}, positions {}..={}: {}", names(&cx, tnodes), i, j, e) }),
                            (Ok(Ok(_)), Err(why)) => fs.push(Finding { prop: "C12", msg: format!("remove accepts a segment the reference refuses ({}): tour {:?}, positions {}..={}", why, names(&cx, tnodes), i, j) }),
                            (Ok(Ok((rest, removed, removable))), Ok(w)) => {
                                if rest != *w || removed != tnodes[i..=j] || !removable {
                                    fs.push(Finding { prop: "C12", msg: format!("remove of positions {}..={} from {:?} gives rest {:?} / removed {:?} (check_removable {}), expected rest {:?}", i, j, names(&cx, tnodes), rest.as_ref().map(|r| names(&cx, r)), names(&cx, &removed), removable, w.as_ref().map(|r| names(&cx, r))) });
                                }
                                if let (Some(_), Ok(Ok((Some(t), _)))) = (w, sut::catch(|| tour.remove(seg))) {
                                    for m in osched::check_tour_caches(&cx, &t) {
                                        fs.push(Finding { prop: "C09", msg: format!("after Tour::remove of positions {}..={} from {:?}: {}", i, j, names(&cx, tnodes), m) });
                                    }
                                }
                            }
                        }
                        if fs.len() > 3 {
                            break 'types;
                        }
                    }
                }
                for pnodes in &paths {
                    if pairs as usize > self.max_pairs {
                        *o.counters.entry("pairs_capped".into()).or_insert(0) += 1;
                        break;
                    }
                    pairs += 1;
                    let path = match Path::new(pnodes.clone(), cx.net.clone()) {
                        Ok(Some(p)) => p,
                        _ => {
                            fs.push(Finding { prop: "C12", msg: format!("Path::new rejects the chain {:?}", names(&cx, pnodes)) });
                            continue;
                        }
                    };
                    let (want, dropped) = r_insert(&cx, tnodes, pnodes, *dummy);
                    // classes: tie with zero turnaround between the path and a kept neighbour; non-transitivity
                    let eff: Vec<NodeIdx> = if *dummy { pnodes.iter().copied().filter(|n| !is_depot(&cx, *n)).collect() } else { pnodes.clone() };
                    if let (Some(f0), Some(l0)) = (eff.first(), eff.last()) {
                        for n in tnodes.iter().filter(|n| !is_depot(&cx, **n)) {
                            let (a, b) = (cx.node_act[n], cx.node_act.get(f0).copied());
                            if let Some(b) = b {
                                if fl.connectable(a, b) && fl.act_end(a) == fl.act_start(b) {
                                    tie_pair = true;
                                }
                            }
                            if let Some(c) = cx.node_act.get(l0).copied() {
                                if fl.connectable(c, a) && fl.act_end(c) == fl.act_start(a) {
                                    tie_pair = true;
                                }
                            }
                        }
                        if !dropped.is_empty() && tnodes.iter().any(|n| !dropped.contains(n) && !is_depot(&cx, *n) && reach(&cx, *n, dropped[0]) && !reach(&cx, *n, *f0) && cx.node_act.get(f0).map(|x| fl.act_start(*x) >= fl.act_end(cx.node_act[n])).unwrap_or(false)) {
                            nontransitive = true;
                        }
                    }
                    let seg = Segment::new(eff[0], eff[eff.len() - 1]);
                    let got = sut::catch(|| {
                        let (t, removed) = tour.insert_path(path.clone());
                        let conflict = tour.conflict(seg).map(|p| p.iter().collect::<Vec<_>>()).unwrap_or_default();
                        (t.all_nodes_iter().collect::<Vec<_>>(), removed.map(|p| p.iter().collect::<Vec<_>>()).unwrap_or_default(), conflict, t)
                    });
                    match got {
                        Err(p) => fs.push(Finding { prop: "C12", msg: format!("PANIC in insert_path at {}: {} (tour {:?}, path {:?})", p.file(), p.msg, names(&cx, tnodes), names(&cx, pnodes)) }),
                        Ok((new_nodes, removed, conflict, t)) => {
                            let acts = |v: &[NodeIdx]| -> Vec<NodeIdx> { v.iter().copied().filter(|n| !is_depot(&cx, *n)).collect() };
                            if new_nodes != want {
                                fs.push(Finding { prop: "C12", msg: format!("insert_path({:?}) into {}tour {:?} gives {:?}, reference semantics give {:?} (dropped {:?})", names(&cx, pnodes), if *dummy { "dummy " } else { "" }, names(&cx, tnodes), names(&cx, &new_nodes), names(&cx, &want), names(&cx, &dropped)) });
                            } else {
                                if acts(&removed) != acts(&dropped) {
                                    fs.push(Finding { prop: "C12", msg: format!("insert_path({:?}) into {:?} reports dropped {:?}, expected {:?}", names(&cx, pnodes), names(&cx, tnodes), names(&cx, &removed), names(&cx, &dropped)) });
                                }
                                if acts(&conflict) != acts(&dropped) {
                                    fs.push(Finding { prop: "C12", msg: format!("conflict({:?}) with {:?} is {:?}, expected {:?}", names(&cx, &eff), names(&cx, tnodes), names(&cx, &conflict), names(&cx, &dropped)) });
                                }
                                for m in osched::check_tour_caches(&cx, &t) {
                                    fs.push(Finding { prop: "C09", msg: format!("after Tour::insert_path({:?}) into {:?}: {}", names(&cx, pnodes), names(&cx, tnodes), m) });
                                }
                            }
                        }
                    }
                    if fs.len() > 3 {
                        break 'types;
                    }
                }
            }
        }
        o.counters.insert("pairs".into(), pairs);
        o.counters.insert("tours".into(), tours_built);
        if tie_pair {
            o.classes.push("insert_at_zero_turnaround_tie".into());
        }
        if nontransitive {
            o.classes.push("non_transitive_around_insertion".into());
        }
        o.nontrivial = tie_pair || nontransitive;
        o.sample = json!({"instance": fl.summary(), "pairs_checked": pairs, "tours": tours_built});
        // one message per distinct text head
        let mut seen = BTreeSet::new();
        fs.retain(|f| seen.insert(f.msg.clone()));
        o.findings = fs;
        o
    }
}

// ---------------------------------------------------------------------------------------------
// exhaustive small family (thorough tier): EVERY network with <= 3 activities on a 6-tick line
// ---------------------------------------------------------------------------------------------

/// one activity of the small family: kind 0 = trip, 1 = slot
#[derive(Clone, Copy, Debug, PartialEq, Eq, PartialOrd, Ord)]
pub struct SmallAct {
    pub slot: bool,
    pub origin: usize,
    pub dest: usize,
    pub start: i64,
    pub dur: i64,
}

pub fn small_act_options() -> Vec<SmallAct> {
    let mut v = Vec::new();
    for start in 0..6 {
        for dur in 1..=2 {
            for origin in 0..2 {
                for dest in 0..2 {
                    v.push(SmallAct { slot: false, origin, dest, start, dur });
                }
                v.push(SmallAct { slot: true, origin, dest: origin, start, dur });
            }
        }
    }
    v
}

/// parameter settings: (shunt_min ticks, shunt_dh ticks, dead-head ticks, forbid)
pub fn small_param_options() -> Vec<(u64, u64, u64, bool)> {
    let mut v = Vec::new();
    for sm in [0u64, 1] {
        for sd in [0u64, 1] {
            for dh in [0u64, 1, 3] {
                for fb in [false, true] {
                    v.push((sm, sd, dh, fb));
                }
            }
        }
    }
    v
}

pub fn small_instance(acts: &[SmallAct], p: (u64, u64, u64, bool)) -> Inst {
    let base = days_from_civil(2024, 2, 28) * 86400;
    let tick = 600i64;
    let locs = vec!["L0".to_string(), "L1".to_string()];
    let mut routes = Vec::new();
    let mut departures = Vec::new();
    let mut slots = Vec::new();
    for (i, a) in acts.iter().enumerate() {
        if a.slot {
            slots.push(SlotIn { id: format!("M{}", i), location: locs[a.origin].clone(), start: fmt_time(base + a.start * tick), end: fmt_time(base + (a.start + a.dur) * tick), tracks: 2 });
        } else {
            routes.push(Route { id: format!("R{}", i), vtype: "T0".into(), segs: vec![RSeg { id: format!("R{}S0", i), order: 0, origin: locs[a.origin].clone(), destination: locs[a.dest].clone(), distance: 1000, duration: (a.dur * tick) as u64, max_form: None }] });
            departures.push(Departure { id: format!("P{}", i), route: format!("R{}", i), segs: vec![DSeg { id: format!("P{}S0", i), rseg: format!("R{}S0", i), departure: fmt_time(base + a.start * tick), passengers: 1, seated: 0 }] });
        }
    }
    let dh = p.2 * tick as u64;
    Inst {
        types: vec![VType { id: "T0".into(), capacity: 100, seats: 100, max_form: None }],
        locs: locs.clone(),
        depots: None,
        routes,
        departures,
        slots: if slots.is_empty() { None } else { Some(slots) },
        dh_indices: locs,
        dh_durations: vec![vec![0, dh], vec![dh, 0]],
        dh_distances: vec![vec![0, 5000], vec![5000, 0]],
        forbid: Some(p.3),
        shunt_min: p.0 * tick as u64,
        shunt_dh: p.1 * tick as u64,
        max_distance: Some(100_000),
        costs: Costs { staff: 1, service: 1, maintenance: Some(1), dead_head: 2, idle: 1 },
        nulls: false,
        day_limits: Vec::new(),
    }
}

/// Enumerate this worker's shard of the whole family; returns a JSON summary (and the first
/// failing case, if any).
pub fn exhaustive_shard(shard: usize, nshards: usize) -> serde_json::Value {
    let opts = small_act_options();
    let params = small_param_options();
    let engine = TourEngine { cfg: GenCfg::quick(), max_chains: 10_000, max_pairs: 10_000_000 };
    let mut networks = 0u64;
    let mut pairs = 0u64;
    let mut with_trip = 0u64;
    let mut nontrivial = 0u64;
    let mut idx = 0usize;
    let mut failure = serde_json::Value::Null;
    // multisets of size 1..=3 with at least one trip (an instance needs a departure segment)
    let n = opts.len();
    'outer: for a in 0..n {
        for b in a..=n {
            for c in b..=n {
                // b == n / c == n encode "absent" (sizes 1 and 2); keep canonical forms only
                if b == n && c != n {
                    continue;
                }
                let mut acts = vec![opts[a]];
                if b < n {
                    acts.push(opts[b]);
                }
                if c < n {
                    acts.push(opts[c]);
                }
                if acts.iter().all(|x| x.slot) {
                    continue;
                }
                for p in &params {
                    idx += 1;
                    if idx % nshards != shard {
                        continue;
                    }
                    let inst = small_instance(&acts, *p);
                    let o = engine.eval_inst(&inst, idx as u64);
                    networks += 1;
                    with_trip += 1;
                    pairs += o.counters.get("pairs").copied().unwrap_or(0);
                    if o.nontrivial {
                        nontrivial += 1;
                    }
                    if let Some(f) = o.findings.iter().find(|f| f.prop == "C12") {
                        failure = json!({"message": f.msg, "exhaustive_case": {"acts": acts.iter().map(|x| json!([x.slot, x.origin, x.dest, x.start, x.dur])).collect::<Vec<_>>(), "params": [p.0, p.1, p.2, p.3]}, "decoded_case": o.sample});
                        break 'outer;
                    }
                }
            }
        }
    }
    json!({"networks": networks, "pairs": pairs, "nontrivial": nontrivial, "with_trip": with_trip, "failure": failure})
}

pub fn exhaustive_case_from_json(v: &serde_json::Value) -> Option<Inst> {
    let acts: Vec<SmallAct> = v["acts"].as_array()?.iter().map(|a| SmallAct { slot: a[0].as_bool().unwrap_or(false), origin: a[1].as_u64().unwrap_or(0) as usize, dest: a[2].as_u64().unwrap_or(0) as usize, start: a[3].as_i64().unwrap_or(0), dur: a[4].as_i64().unwrap_or(1) }).collect();
    let p = (v["params"][0].as_u64()?, v["params"][1].as_u64()?, v["params"][2].as_u64()?, v["params"][3].as_bool()?);
    Some(small_instance(&acts, p))
}
