//! pipeline engine (C01–C07, C16): instance -> real `server::solve_instance` in a killable child,
//! in the optimised build and in the build with arithmetic checks -> O-JSON + stage snapshots.

use crate::gen_inst::*;
use crate::inst::*;
use crate::ojson::{self, Finding};
use crate::osched;
use crate::runner::{CaseOutcome, Engine};
use crate::sut::{self, Ctx};
use crate::tape::*;
use serde_json::{json, Value};
use std::io::{Read, Write};
use std::process::{Command, Stdio};
use std::time::{Duration, Instant};

// ---------------------------------------------------------------------------------------------
// child: `rsv solve-one`
// ---------------------------------------------------------------------------------------------

/// Run the real pipeline in this process and build the same result the child would send.
pub fn solve_inline(input: &Value, want_snapshots: bool) -> ChildResult {
    solve_inline_with(input, want_snapshots, server::solve_instance)
}

/// The same for any entry point that records the stage snapshots (hooks H5/H6 in
/// `server::solve_instance`, H7 in `internal::run`).
pub fn solve_inline_with(input: &Value, want_snapshots: bool, entry: fn(Value) -> Value) -> ChildResult {
    let res = sut::catch(|| {
        solution::verif::enable();
        let out = entry(input.clone());
        let snaps = solution::verif::take();
        let trans = solution::verif::take_transitions();
        (out, snaps, trans)
    });
    match res {
        Err(p) => ChildResult::Panic { file: p.file(), msg: p.msg, loc: p.loc },
        Ok((out, snaps, trans)) => {
            let mut snapshots = Vec::new();
            let mut optimiser_output: Vec<Value> = Vec::new();
            if want_snapshots {
                // the id maps must be built over the very network the snapshots refer to: default
                // depots get their indices from a HashMap iteration, so a second load may differ
                let net = snaps.first().map(|(_, s)| s.get_network());
                let build = || -> Result<Ctx, String> {
                    let inst = Inst::from_json(input)?;
                    let flat = Flat::new(&inst)?;
                    Ctx::from_parts(flat, net.clone().ok_or("no snapshot")?)
                };
                if let Ok(Ok(cx)) = sut::catch(build) {
                    for (label, vt, t) in &trans {
                        if label == "optimiser_output" {
                            optimiser_output.push(json!({
                                "type": cx.type_of.get(vt),
                                "cycles": t.cycles_iter().filter(|c| !c.is_empty()).map(|c| c.iter().map(|v| v.to_string()).collect::<Vec<_>>()).collect::<Vec<_>>(),
                                "totals": [t.maintenance_violation(), t.maintenance_counter()],
                            }));
                        }
                    }
                    for (label, s) in &snaps {
                        let fs = sut::catch(|| osched::validate(&cx, s, &osched::Opts { c09: true, c10: true }));
                        let osched: Vec<Value> = match fs {
                            Ok(fs) => fs.iter().map(|f| json!({"prop": f.prop, "msg": f.msg})).collect(),
                            Err(p) => vec![json!({"prop": "C09", "msg": format!("PANIC while validating snapshot at {}: {}", p.file(), p.msg)})],
                        };
                        let rejson = sut::catch(|| solution::json_serialisation::schedule_to_json(s)).ok();
                        snapshots.push(json!({"label": label, "digest": cx.digest(s), "osched": osched, "json": if label == "final" { rejson } else { None }}));
                    }
                }
            }
            snapshots.push(json!({"label": "optimiser_output", "per_type": optimiser_output}));
            ChildResult::Answer { output: out, snapshots }
        }
    }
}

/// `rsv solve-one-internal`: the command-line entry point's pipeline (`internal::run`, what
/// `single_run` executes) on the instance read from stdin, with the stage snapshots of hook H7.
pub fn solve_one_internal_main() -> i32 {
    sut::silence_stdout();
    let mut input = String::new();
    std::io::stdin().read_to_string(&mut input).expect("stdin");
    let input: Value = serde_json::from_str(&input).expect("instance json");
    match solve_inline_with(&input, true, internal::run) {
        ChildResult::Panic { msg, file, loc } => sut::outln(&json!({"status": "panic", "msg": msg, "loc": loc, "file": file}).to_string()),
        ChildResult::Answer { output, snapshots } => sut::outln(&json!({"status": "answer", "output": output, "snapshots": snapshots}).to_string()),
        _ => {}
    }
    0
}

pub fn solve_one_main() -> i32 {
    sut::silence_stdout();
    let mut input = String::new();
    std::io::stdin().read_to_string(&mut input).expect("stdin");
    let input: Value = serde_json::from_str(&input).expect("instance json");
    let want_snapshots = std::env::var("RSV_SNAPSHOTS").map(|x| x == "1").unwrap_or(true);
    match solve_inline(&input, want_snapshots) {
        ChildResult::Panic { msg, file, loc } => sut::outln(&json!({"status": "panic", "msg": msg, "loc": loc, "file": file}).to_string()),
        ChildResult::Answer { output, snapshots } => sut::outln(&json!({"status": "answer", "output": output, "snapshots": snapshots}).to_string()),
        _ => {}
    }
    0
}

#[derive(Clone, Debug)]
pub enum ChildResult {
    Answer { output: Value, snapshots: Vec<Value> },
    Panic { msg: String, file: String, loc: String },
    Timeout,
    Broken(String),
}

pub fn bin_for(profile: &str) -> std::path::PathBuf {
    let key = format!("RSV_BIN_{}", profile.to_uppercase());
    if let Ok(p) = std::env::var(&key) {
        return p.into();
    }
    // sibling target directory of the running binary: target/<profile>/rsv
    let exe = std::env::current_exe().expect("exe");
    let target = exe.parent().and_then(|p| p.parent()).expect("target dir").to_path_buf();
    target.join(profile).join("rsv")
}

pub fn run_child(profile: &str, args: &[&str], stdin_data: &str, watchdog: Duration, envs: &[(&str, &str)]) -> ChildResult {
    let mut cmd = Command::new(bin_for(profile));
    for a in args {
        cmd.arg(a);
    }
    for (k, v) in envs {
        cmd.env(k, v);
    }
    cmd.stdin(Stdio::piped()).stdout(Stdio::piped()).stderr(Stdio::null());
    let mut child = match cmd.spawn() {
        Ok(c) => c,
        Err(e) => return ChildResult::Broken(format!("spawn {}: {}", bin_for(profile).display(), e)),
    };
    {
        let mut si = child.stdin.take().unwrap();
        let data = stdin_data.to_string();
        // write in a thread: the child may die before reading everything
        std::thread::spawn(move || {
            let _ = si.write_all(data.as_bytes());
        });
    }
    let mut so = child.stdout.take().unwrap();
    let reader = std::thread::spawn(move || {
        let mut s = String::new();
        let _ = so.read_to_string(&mut s);
        s
    });
    let start = Instant::now();
    let status = loop {
        match child.try_wait() {
            Ok(Some(st)) => break Some(st),
            Ok(None) => {
                if start.elapsed() > watchdog {
                    let _ = child.kill();
                    let _ = child.wait();
                    break None;
                }
                std::thread::sleep(Duration::from_millis(2));
            }
            Err(_) => break None,
        }
    };
    let out = reader.join().unwrap_or_default();
    if status.is_none() {
        return ChildResult::Timeout;
    }
    let Some(line) = out.lines().rev().find(|l| l.starts_with('{')) else {
        return ChildResult::Broken(format!("child ended with {:?} and no result line", status.and_then(|s| s.code())));
    };
    let Ok(v) = serde_json::from_str::<Value>(line) else { return ChildResult::Broken("unparsable child result".into()) };
    match v["status"].as_str() {
        Some("answer") => ChildResult::Answer { output: v["output"].clone(), snapshots: v["snapshots"].as_array().cloned().unwrap_or_default() },
        Some("panic") => ChildResult::Panic { msg: v["msg"].as_str().unwrap_or("").to_string(), file: v["file"].as_str().unwrap_or("").to_string(), loc: v["loc"].as_str().unwrap_or("").to_string() },
        _ => ChildResult::Broken("child result without status".into()),
    }
}

// ---------------------------------------------------------------------------------------------
// engine
// ---------------------------------------------------------------------------------------------

pub static WATCHDOG_EXPIRIES: std::sync::atomic::AtomicU32 = std::sync::atomic::AtomicU32::new(0);

pub struct PipelineEngine {
    pub prop: String,
    pub cfg: GenCfg,
    pub watchdog: Duration,
    pub profiles: Vec<&'static str>,
    /// libFuzzer targets: run the pipeline in this (instrumented) process instead of in children
    pub in_process: bool,
}

impl PipelineEngine {
    pub fn new(prop: &str, tier: &str) -> PipelineEngine {
        let mut cfg = if tier == "thorough" { GenCfg::thorough() } else { GenCfg::quick() };
        match prop {
            "C02" | "C07" => cfg.heavy_demand = true,
            "C04" | "C05" => cfg.force_slots = true,
            "C16" => {
                cfg.force_slots = true;
                cfg.cycle_rich = true;
                cfg.max_slots = 4;
            }
            "C06" => cfg.heavy_demand = true,
            _ => {}
        }
        cfg.giant = prop != "C16";
        PipelineEngine { prop: prop.to_string(), cfg, watchdog: Duration::from_secs(if tier == "thorough" { 60 } else { 20 }), profiles: vec!["checked", "release"], in_process: false }
    }

    pub fn instance(&self, tape: &Tape) -> Inst {
        decode_inst(tape, &self.cfg, "")
    }
}

fn tuple_of(d: &Value) -> Option<[i64; 4]> {
    let a = d.get("tuple")?.as_array()?;
    Some([a[0].as_i64()?, a[1].as_i64()?, a[2].as_i64()?, a[3].as_i64()?])
}

/// C16: relation between the stage snapshots of one solve call and the returned JSON.
pub fn check_stages(fl: &Flat, snaps: &[Value], output: &Value, fs: &mut Vec<Finding>) -> (bool, usize, bool) {
    let get = |label: &str| snaps.iter().find(|s| s["label"] == label).map(|s| &s["digest"]);
    let ls_steps = snaps.iter().filter(|s| s["label"] == "ls_step").count();
    let (Some(start), Some(ls), Some(topt), Some(fin)) = (get("start"), get("after_ls"), get("after_transition_opt"), get("final")) else {
        fs.push(Finding { prop: "C16", msg: format!("stage snapshots incomplete: have {:?}", snaps.iter().map(|s| s["label"].as_str().unwrap_or("")).collect::<Vec<_>>()) });
        return (false, ls_steps, false);
    };
    let acts_and_start = |d: &Value| -> Vec<(String, Vec<String>)> {
        let mut v: Vec<(String, Vec<String>)> = d["vehicles"]
            .as_array()
            .cloned()
            .unwrap_or_default()
            .iter()
            .map(|x| {
                let nodes: Vec<String> = x["nodes"].as_array().cloned().unwrap_or_default().iter().map(|n| n.as_str().unwrap_or("").to_string()).collect();
                let keep = nodes.len().saturating_sub(1);
                (x["id"].as_str().unwrap_or("").to_string(), nodes[..keep].to_vec())
            })
            .collect();
        v.sort();
        v
    };
    // (1) activities and start depot per vehicle of the final schedule == local-search result
    if acts_and_start(fin) != acts_and_start(ls) {
        fs.push(Finding { prop: "C16", msg: format!("final schedule's itineraries (start depot + activities) differ from the local-search result: final {:?} vs after_ls {:?}", acts_and_start(fin), acts_and_start(ls)) });
    }
    // (2) cycles of the final schedule == the optimiser's cycles (empty placeholders ignored), and
    //     the JSON reports the same
    let norm = |c: &Value| -> Vec<Vec<Vec<String>>> {
        c.as_array()
            .cloned()
            .unwrap_or_default()
            .iter()
            .map(|per_type| {
                per_type
                    .as_array()
                    .cloned()
                    .unwrap_or_default()
                    .iter()
                    .map(|cy| cy.as_array().cloned().unwrap_or_default().iter().map(|v| v.as_str().unwrap_or("").to_string()).collect::<Vec<_>>())
                    .filter(|cy: &Vec<String>| !cy.is_empty())
                    .collect()
            })
            .collect()
    };
    let opt_cycles = norm(&topt["cycles"]);
    let fin_cycles = norm(&fin["cycles"]);
    let differs_from_ls = norm(&ls["cycles"]) != opt_cycles;
    let multi_cycle_type = norm(&ls["cycles"]).iter().any(|per_type| per_type.len() >= 2);
    if fin_cycles != opt_cycles {
        fs.push(Finding { prop: "C16", msg: format!("rotation cycles of the returned schedule {:?} are not the transition optimiser's cycles {:?} (local-search result had {:?})", fin_cycles, opt_cycles, norm(&ls["cycles"])) });
    }
    // (2b) the cycles carried on are the transition optimiser's own output (hook H6)
    if let Some(oo) = snaps.iter().find(|s| s["label"] == "optimiser_output") {
        let per_type = oo["per_type"].as_array().cloned().unwrap_or_default();
        if per_type.len() != fl.inst.types.len() {
            fs.push(Finding { prop: "C16", msg: format!("the transition optimiser was run for {} of {} vehicle types", per_type.len(), fl.inst.types.len()) });
        }
        for e in per_type {
            let Some(ti) = e["type"].as_u64().map(|x| x as usize) else { continue };
            let cyc: Vec<Vec<String>> = e["cycles"].as_array().cloned().unwrap_or_default().iter().map(|c| c.as_array().cloned().unwrap_or_default().iter().map(|v| v.as_str().unwrap_or("").to_string()).collect()).collect();
            if opt_cycles.get(ti) != Some(&cyc) {
                fs.push(Finding { prop: "C16", msg: format!("type {}: the cycles carried into the final stage {:?} are not the transition optimiser's output {:?}: its result is discarded", ti, opt_cycles.get(ti), cyc) });
            }
            let inp = &ls["transition_totals"][ti];
            let (xa, ya) = ((inp[0].as_i64().unwrap_or(0), inp[1].as_i64().unwrap_or(0)), (e["totals"][0].as_i64().unwrap_or(0), e["totals"][1].as_i64().unwrap_or(0)));
            if ya > xa {
                fs.push(Finding { prop: "C15", msg: format!("transition optimisation worsened type {}: (violation, counter) {:?} -> {:?}", ti, xa, ya) });
            }
        }
    }
    let mut json_cycles: Vec<Vec<Vec<String>>> = vec![Vec::new(); fl.inst.types.len()];
    for fleet in output["schedule"]["fleet"].as_array().cloned().unwrap_or_default() {
        if let Some(&ti) = fl.type_by_id.get(fleet["vehicleType"].as_str().unwrap_or("")) {
            json_cycles[ti] = fleet["vehicleCycles"]
                .as_array()
                .cloned()
                .unwrap_or_default()
                .iter()
                .map(|cy| cy.as_array().cloned().unwrap_or_default().iter().map(|v| v.as_str().unwrap_or("").to_string()).collect::<Vec<_>>())
                .filter(|cy: &Vec<String>| !cy.is_empty())
                .collect();
        }
    }
    if json_cycles != opt_cycles {
        fs.push(Finding { prop: "C16", msg: format!("reported vehicleCycles {:?} are not the transition optimiser's cycles {:?}", json_cycles, opt_cycles) });
    }
    // (3) end depot of each vehicle in the final schedule == start depot of its successor in T_opt
    let start_of: std::collections::HashMap<String, String> = fin["vehicles"]
        .as_array()
        .cloned()
        .unwrap_or_default()
        .iter()
        .map(|x| (x["id"].as_str().unwrap_or("").to_string(), x["nodes"][0].as_str().unwrap_or("").trim_start_matches("S:").to_string()))
        .collect();
    let end_of: std::collections::HashMap<String, String> = fin["vehicles"]
        .as_array()
        .cloned()
        .unwrap_or_default()
        .iter()
        .map(|x| {
            let n = x["nodes"].as_array().cloned().unwrap_or_default();
            (x["id"].as_str().unwrap_or("").to_string(), n.last().and_then(|l| l.as_str()).unwrap_or("").trim_start_matches("E:").to_string())
        })
        .collect();
    for per_type in &opt_cycles {
        for cy in per_type {
            for (k, v) in cy.iter().enumerate() {
                let next = &cy[(k + 1) % cy.len()];
                if end_of.get(v) != start_of.get(next) {
                    fs.push(Finding { prop: "C16", msg: format!("end depot of {} ({:?}) is not aligned to the start depot of its successor {} ({:?}) in the optimiser's cycle {:?}", v, end_of.get(v), next, start_of.get(next), cy) });
                }
            }
        }
    }
    // (5) the local search never returns something worse than its start; without slots it does not run
    if let (Some(a), Some(b)) = (tuple_of(start), tuple_of(ls)) {
        if b > a {
            fs.push(Finding { prop: "C16", msg: format!("local-search result {:?} is worse than the start solution {:?}", b, a) });
        }
        if !fl.maintenance_considered() && (ls["vehicles"] != start["vehicles"] || ls_steps > 0) {
            fs.push(Finding { prop: "C16", msg: "instance has no maintenance slot but the schedule after the search stage differs from the start solution".to_string() });
        }
    }
    // (6) the optimiser does not worsen (violation, counter) per type
    if let (Some(a), Some(b)) = (ls["transition_totals"].as_array(), topt["transition_totals"].as_array()) {
        for (ti, (x, y)) in a.iter().zip(b.iter()).enumerate() {
            let xa = (x[0].as_i64().unwrap_or(0), x[1].as_i64().unwrap_or(0));
            let ya = (y[0].as_i64().unwrap_or(0), y[1].as_i64().unwrap_or(0));
            if ya > xa {
                fs.push(Finding { prop: "C15", msg: format!("transition optimisation worsened type {}: (violation, counter) {:?} -> {:?}", ti, xa, ya) });
            }
        }
    }
    // (4) the returned JSON is the serialisation of the final snapshot, its objective the final tuple
    let fin_snap = snaps.iter().find(|s| s["label"] == "final").unwrap();
    if !fin_snap["json"].is_null() && fin_snap["json"] != output["schedule"] {
        fs.push(Finding { prop: "C16", msg: "returned schedule JSON is not the serialisation of the final-stage schedule".to_string() });
    }
    if let Some(t) = tuple_of(fin) {
        let ov = &output["objectiveValue"];
        let rep = [ov["unservedPassengers"].as_i64(), ov["maintenanceViolation"].as_i64(), ov["vehicleCount"].as_i64(), ov["costs"].as_i64()];
        if rep != [Some(t[0]), Some(t[1]), Some(t[2]), Some(t[3])] {
            fs.push(Finding { prop: "C16", msg: format!("reported objectiveValue {:?} is not the evaluation of the final-stage schedule {:?}", rep, t) });
        }
    }
    // C07: no later stage gives up covered demand
    let u: Vec<i64> = [start, ls, fin].iter().filter_map(|d| tuple_of(d).map(|t| t[0])).collect();
    if u.windows(2).any(|w| w[1] > w[0]) {
        fs.push(Finding { prop: "C07", msg: format!("unserved passengers grew along the stages start/after_ls/final: {:?}", u) });
    }
    // snapshot-level O-SCHED findings (caches must be true whenever a value is read: C04)
    for s in snaps {
        for f in s["osched"].as_array().cloned().unwrap_or_default() {
            let prop = match f["prop"].as_str() {
                Some("C09") => "C09",
                Some("C10") => "C10",
                _ => continue,
            };
            fs.push(Finding { prop, msg: format!("stage {}: {}", s["label"].as_str().unwrap_or(""), f["msg"].as_str().unwrap_or("")) });
            if prop == "C09" && s["label"] == "final" {
                fs.push(Finding { prop: "C04", msg: format!("final schedule has a stale cache: {}", f["msg"].as_str().unwrap_or("")) });
            }
        }
    }
    (differs_from_ls, ls_steps, multi_cycle_type)
}

impl Engine for PipelineEngine {
    fn name(&self) -> &'static str {
        "pipeline"
    }
    fn specs(&self) -> Vec<SecSpec> {
        inst_specs(&self.cfg)
    }
    fn rule(&self) -> String {
        let nt = match self.prop.as_str() {
            "C01" => "the returned schedule has a vehicle with >= 2 activities (a consecutive pair was checked)",
            "C02" => "some limit is tight or exceeded by demand (formation == limit, need > limit, slot full, depot at capacity or overflow depot used)",
            "C03" => ">= 1 formation with >= 2 vehicles and >= 1 dead-head trip in the output",
            "C04" => "instance has slots AND (>= 1 accepted local-search step OR the transition optimiser changed >= 1 cycle)",
            "C05" => "some reported cycle has >= 2 members whose start depots differ",
            "C06" => "instance belongs to >= 1 stress class (need>=2, >=2 tracks, scarce/absent depots, zero shunting with back-to-back trips, type without trips, maintenance parameter absent with slots)",
            "C07" => "some segment needs >= 2 vehicles or more than its limit allows",
            "C16" => "the transition optimiser's cycles differ from the local-search result's cycles for some type",
            _ => "",
        };
        format!("G-INST tapes (proptest) decoded into valid instances; each solved by the real pipeline in a child process (release and arithmetic-checked builds); distinct = digest of the tape; non-trivial = {}", nt)
    }
    fn assumptions(&self) -> Vec<String> {
        vec![
            "instances conform to README 'Input format'; <= 6 coupled vehicles per segment, costs <= 500/s, 1-3 day horizon".into(),
            "staff term of the costs is costs.staff x number of departure segments (the implementation's definition)".into(),
            "INF_DISTANCE, MAX_DISTANCE and the clamp of dead-head durations to the planning horizon are the documented constants".into(),
            "a watchdog expiry is inconclusive, never a violation".into(),
        ]
    }
    fn max_shrink_iters(&self) -> u32 {
        400
    }
    fn tolerated_inconclusive_fraction(&self) -> f64 {
        // C06: termination is the property -- a case that stays silent even under the long
        // watchdog makes the run inconclusive (exit 2); it is never reported as a violation
        if self.prop == "C06" {
            0.0
        } else {
            0.2
        }
    }

    fn eval(&self, tape: &Tape) -> CaseOutcome {
        let mut o = CaseOutcome::new(tape.digest());
        let inst = self.instance(tape);
        let input = inst.to_json();
        let fl = match Flat::new(&inst) {
            Ok(f) => f,
            Err(e) => {
                o.excluded = Some(format!("generator produced an undecodable instance: {}", e));
                return o;
            }
        };
        let mut classes: Vec<String> = inst_classes(&fl).iter().map(|s| s.to_string()).collect();
        // circuit breaker: after several watchdog expiries in this worker the remaining cases are
        // not executed (a systematic hang would otherwise cost 20 s per case); the run then ends
        // inconclusive (exit 2)
        if WATCHDOG_EXPIRIES.load(std::sync::atomic::Ordering::SeqCst) >= 6 {
            o.inconclusive = Some("not executed: circuit breaker after 6 watchdog expiries in this worker".into());
            o.classes = classes;
            return o;
        }
        let input_s = input.to_string();
        let mut sample = json!({"instance": fl.summary()});
        if std::env::var("RSV_DUMP_INPUT").is_ok() {
            sample["input"] = input.clone();
        }
        let mut nontrivial_any = false;
        for profile in &self.profiles {
            let mut r = if self.in_process { solve_inline(&input, true) } else { run_child(profile, &["solve-one"], &input_s, self.watchdog, &[]) };
            if matches!(r, ChildResult::Timeout) && self.prop == "C06" {
                // slow or hanging? one retry with a five times longer watchdog (at most three
                // such retries per worker process, so a systematic hang cannot stall the run)
                static RETRIES: std::sync::atomic::AtomicU32 = std::sync::atomic::AtomicU32::new(0);
                if RETRIES.fetch_add(1, std::sync::atomic::Ordering::SeqCst) < 3 {
                    r = run_child(profile, &["solve-one"], &input_s, self.watchdog * 5, &[("RSV_SNAPSHOTS", "0")]);
                    classes.push(if matches!(r, ChildResult::Timeout) { "timeout_confirmed_with_long_watchdog".to_string() } else { "slow_case_answered_under_long_watchdog".to_string() });
                    if matches!(r, ChildResult::Timeout) {
                        let dir = crate::runner::verif_root().join("replay").join("C06").join("timeouts");
                        let _ = std::fs::create_dir_all(&dir);
                        let _ = std::fs::write(dir.join(format!("{:016x}.json", tape.digest())), json!({"property": "C06", "engine": "pipeline", "tape": tape.to_json(), "input": input, "note": format!("no answer within {:?} ({} build)", self.watchdog * 5, profile)}).to_string());
                    }
                }
            }
            match r {
                ChildResult::Answer { output, snapshots } => {
                    let (mut fs, facts, _parsed) = ojson::validate(&fl, &output);
                    let (opt_changed, ls_steps, multi_cycle) = check_stages(&fl, &snapshots, &output, &mut fs);
                    if multi_cycle {
                        classes.push("type_with>=2_cycles_after_search".into());
                    }
                    for f in fs.iter_mut() {
                        f.msg = format!("[{}] {}", profile, f.msg);
                    }
                    o.findings.extend(fs);
                    if ls_steps > 0 {
                        classes.push("ls_steps>0".into());
                    }
                    if opt_changed {
                        classes.push("optimiser_changed_cycles".into());
                    }
                    if facts.uses_overflow {
                        classes.push("uses_overflow_depot".into());
                    }
                    if facts.pair_tie > 0 {
                        classes.push("pair_at_tie".into());
                    }
                    if facts.pair_dead_head > 0 {
                        classes.push("pair_with_dead_head".into());
                    }
                    if facts.pair_with_slot > 0 {
                        classes.push("pair_with_slot".into());
                    }
                    if facts.formation_ge2 > 0 {
                        classes.push("formation>=2".into());
                    }
                    if facts.cycles_ge2 > 0 {
                        classes.push("cycle_len>=2".into());
                    }
                    let nt = match self.prop.as_str() {
                        "C01" => facts.pairs_checked > 0,
                        "C02" => facts.limit_tight || facts.limit_demand_exceeds || facts.depot_tight,
                        "C03" => facts.formation_ge2 > 0 && facts.dead_head_trips > 0,
                        "C04" => fl.maintenance_considered() && (ls_steps > 0 || opt_changed),
                        "C05" => facts.cycle_multi_depot,
                        "C07" => fl.segs.iter().any(|s| s.need >= 2 || s.lim.map(|l| s.need > l).unwrap_or(false)),
                        "C16" => opt_changed,
                        _ => false,
                    };
                    nontrivial_any |= nt;
                    if *profile == "checked" {
                        sample["objective"] = json!(facts.objective);
                        sample["vehicles"] = json!(facts.vehicles);
                        sample["ls_steps"] = json!(ls_steps);
                    }
                }
                ChildResult::Panic { msg, file, loc } => {
                    classes.push(format!("panic_{}", profile));
                    o.findings.push(Finding { prop: "C06", msg: format!("[{}] PANIC at {} ({}): {}", profile, file, loc, msg.chars().take(300).collect::<String>()) });
                    if self.prop != "C06" {
                        o.excluded = Some(format!("pipeline panics at {}", file));
                    }
                    // the arithmetic-checked build runs first; when it panics the case is decided
                    // (C06) or unusable (other properties), so the optimised build -- which may
                    // hang where the checked build reports an overflow -- is not run
                    break;
                }
                ChildResult::Timeout => {
                    WATCHDOG_EXPIRIES.fetch_add(1, std::sync::atomic::Ordering::SeqCst);
                    classes.push(format!("timeout_{}", profile));
                    o.inconclusive = Some(format!("[{}] no answer within {:?}", profile, self.watchdog));
                }
                ChildResult::Broken(e) => {
                    o.inconclusive = Some(format!("[{}] child broken: {}", profile, e));
                }
            }
        }
        // the second entry point: `internal::run` (single_run) must return valid answers too.
        // Every third case, optimised build: answer validated by O-JSON, stages (hook H7) by the
        // same relation as for the server's entry point.
        if !self.in_process && o.inconclusive.is_none() && o.excluded.is_none() && tape.digest() % 3 == 0 {
            match run_child("release", &["solve-one-internal"], &input_s, self.watchdog, &[]) {
                ChildResult::Answer { output, snapshots } => {
                    let (mut fs, _facts, _parsed) = ojson::validate(&fl, &output);
                    let (opt_changed, _, _) = check_stages(&fl, &snapshots, &output, &mut fs);
                    if opt_changed {
                        classes.push("internal_run_optimiser_changed_cycles".into());
                    }
                    for f in fs.iter_mut() {
                        f.msg = format!("[single_run/internal::run] {}", f.msg);
                    }
                    o.findings.extend(fs);
                    classes.push("internal_run_checked".into());
                }
                ChildResult::Panic { msg, file, loc } => {
                    o.findings.push(Finding { prop: "C06", msg: format!("[single_run/internal::run] PANIC at {} ({}): {}", file, loc, msg.chars().take(300).collect::<String>()) });
                }
                ChildResult::Timeout => {
                    WATCHDOG_EXPIRIES.fetch_add(1, std::sync::atomic::Ordering::SeqCst);
                    o.inconclusive = Some(format!("[single_run/internal::run] no answer within {:?}", self.watchdog));
                }
                ChildResult::Broken(e) => o.inconclusive = Some(format!("[internal] child broken: {}", e)),
            }
        }
        if self.prop == "C06" {
            let stress = ["need>=2", "tracks>=2", "depots=empty_list", "back_to_back_zero_turnaround", "type_without_trips", "shunt_min=0"];
            let maint_absent = fl.inst.max_distance.is_none() && !fl.slots.is_empty();
            let scarce = fl.inst.depots.as_ref().map(|d| d.iter().map(|x| x.capacity).sum::<u64>() < fl.segs.len() as u64).unwrap_or(false);
            nontrivial_any = classes.iter().any(|c| stress.contains(&c.as_str())) || maint_absent || scarce;
            if maint_absent {
                classes.push("maintenance_param_absent_with_slots".into());
            }
            if scarce {
                classes.push("scarce_depot_capacity".into());
            }
        }
        o.nontrivial = nontrivial_any;
        o.classes = classes;
        o.sample = sample;
        o
    }
}
