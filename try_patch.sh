#!/bin/bash
# tools_try_patch.sh <patch.diff> <ID> [<ID>...] : apply a seeded change to /repo, run the quick checks, undo it.
set -u
P="$1"; shift
cd /verif
if ! git -C /repo diff --quiet; then echo "/repo has local changes, refusing"; exit 2; fi
git -C /repo apply "$P" || { echo "patch does not apply"; exit 2; }
for id in "$@"; do
  ./check "$id" ${TRY_ARGS:-} 2>&1 | grep -E "^(VIOLATION|  |C[0-9]+ \[|KNOWN|INCONCL|BUILD)" | cut -c1-400 | head -${TRY_LINES:-4}
done
git -C /repo checkout -- .
git -C /repo status --short | head -3
