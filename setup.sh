#!/bin/bash
# MANIFEST.setup_cmd: offline build of the harness (both profiles) from files on disk only.
set -u
cd "$(dirname "$0")"
export CARGO_NET_OFFLINE=true
H="$(pwd)/harness"
( cd "$H" && cargo build --offline --profile release ) || exit 1
( cd "$H" && cargo build --offline --profile checked ) || exit 1
( cd /repo && cargo build --offline --release -p server --features verif --target-dir "$H/target-repo" ) || exit 1
echo "setup ok"
