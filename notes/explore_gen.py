import json, random, sys
def t(sec):
    base=0
    d, s = divmod(sec, 86400)
    h, r = divmod(s, 3600); m, ss = divmod(r, 60)
    return "2024-01-%02dT%02d:%02d:%02d" % (1+d, h, m, ss)
def gen(rng, ntypes=None, nloc=None, ntrips=None, maint=None, depots=None, forbid=None, shunt0=None, tick=300):
    ntypes = ntypes or rng.randint(1,3)
    nloc = nloc or rng.randint(1,4)
    locs = ["L%d"%i for i in range(nloc)]
    types=[]
    for i in range(ntypes):
        cap=rng.randint(1,100); seats=rng.randint(1,cap)
        vt={"id":"T%d"%i,"capacity":cap,"seats":seats}
        if rng.random()<0.5: vt["maximalFormationCount"]=rng.randint(1,4)
        types.append(vt)
    dur=[[0 if i==j else rng.randint(0,6)*tick for j in range(nloc)] for i in range(nloc)]
    dist=[[0 if i==j else rng.randint(0,50)*100 for j in range(nloc)] for i in range(nloc)]
    routes=[]; nroutes=rng.randint(1,4)
    for r in range(nroutes):
        segs=[]; cur=rng.choice(locs)
        for s in range(rng.randint(1,3)):
            dst=rng.choice(locs)
            seg={"id":"r%d_s%d"%(r,s),"order":s,"origin":cur,"destination":dst,"distance":rng.randint(0,50)*100,"duration":rng.randint(1,8)*tick}
            if rng.random()<0.4: seg["maximalFormationCount"]=rng.randint(1,3)
            segs.append(seg); cur=dst
        routes.append({"id":"r%d"%r,"vehicleType":rng.choice(types)["id"],"segments":segs})
    ntrips = ntrips or rng.randint(1,8)
    deps=[]
    sh_min = 0 if (shunt0 if shunt0 is not None else rng.random()<0.5) else rng.randint(0,2)*tick
    sh_dh = 0 if (shunt0 if shunt0 is not None else rng.random()<0.5) else rng.randint(0,2)*tick
    for d in range(ntrips):
        r=rng.choice(routes); tt=rng.randint(0,40)*tick; segs=[]
        vt=[x for x in types if x["id"]==r["vehicleType"]][0]
        for s in r["segments"]:
            p=rng.choice([0,1,vt["capacity"],vt["capacity"]+1,rng.randint(0,3*vt["capacity"])])
            segs.append({"id":"d%d_%s"%(d,s["id"]),"routeSegment":s["id"],"departure":t(tt),"passengers":p,"seated":rng.randint(0,p)})
            tt+=s["duration"]+sh_min+rng.choice([0,0,tick])
        deps.append({"id":"d%d"%d,"route":r["id"],"segments":segs})
    inst={"vehicleTypes":types,"locations":[{"id":l} for l in locs],"routes":routes,"departures":deps,
          "deadHeadTrips":{"indices":locs,"durations":dur,"distances":dist},
          "parameters":{"shunting":{"minimalDuration":sh_min,"deadHeadTripDuration":sh_dh},
                        "costs":{"staff":rng.randint(0,200),"serviceTrip":rng.randint(0,100),"deadHeadTrip":rng.randint(0,500),"idle":rng.randint(0,50)}}}
    if (forbid if forbid is not None else rng.random()<0.2): inst["parameters"]["forbidDeadHeadTrips"]=True
    if (maint if maint is not None else rng.random()<0.7):
        ms=[]
        for m in range(rng.randint(1,3)):
            st=rng.randint(0,40)*tick
            ms.append({"id":"m%d"%m,"location":rng.choice(locs),"start":t(st),"end":t(st+rng.randint(1,10)*tick),"trackCount":rng.randint(1,3)})
        inst["maintenanceSlots"]=ms
        inst["parameters"]["maintenance"]={"maximalDistance":rng.choice([0,1000,3000,10000,10**7])}
        inst["parameters"]["costs"]["maintenance"]=rng.randint(0,50)
    if (depots if depots is not None else rng.random()<0.6):
        ds=[]
        for k in range(rng.randint(0,3)):
            at=[]
            for vt in types:
                if rng.random()<0.7:
                    e={"vehicleType":vt["id"]}
                    if rng.random()<0.6: e["capacity"]=rng.randint(0,4)
                    at.append(e)
            ds.append({"id":"dep%d"%k,"location":rng.choice(locs),"capacity":rng.randint(0,5),"allowedTypes":at})
        inst["depots"]=ds
    return inst
if __name__=="__main__":
    seed=int(sys.argv[1]); rng=random.Random(seed)
    json.dump(gen(rng),open(sys.argv[2],"w"),indent=1)
