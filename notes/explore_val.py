import json, sys, math
from datetime import datetime
def pt(s):
    if s=="EARLIEST": return -math.inf
    if s=="LATEST": return math.inf
    d,t=s.split('T'); y,m,dd=[int(x) for x in d.split('-')]; parts=[int(x) for x in t.split(':')]
    while len(parts)<3: parts.append(0)
    return (datetime(y,m,dd)-datetime(2000,1,1)).days*86400+parts[0]*3600+parts[1]*60+parts[2]
INF_DISTANCE=10_000_000; MAX_DISTANCE=1_000_000
def validate(inp,out):
    errs=[]
    P=inp['parameters']; sh=P['shunting']; forbid=P.get('forbidDeadHeadTrips') or False
    types={t['id']:t for t in inp['vehicleTypes']}
    locs=[l['id'] for l in inp['locations']]
    idx={l:i for i,l in enumerate(inp['deadHeadTrips']['indices'])}
    routes={r['id']:r for r in inp['routes']}
    segs={}  # dep seg id -> info
    tmin,tmax=math.inf,-math.inf
    for d in inp['departures']:
        r=routes[d['route']]; rs={s['id']:s for s in r['segments']}
        for s in d['segments']:
            q=rs[s['routeSegment']]; st=pt(s['departure'])
            segs[s['id']]=dict(type=r['vehicleType'],o=q['origin'],d=q['destination'],st=st,en=st+q['duration'],dist=q['distance'],p=max(1,s['passengers']),seated=s['seated'],lim=q.get('maximalFormationCount'))
            tmin=min(tmin,st); tmax=max(tmax,st+q['duration'])
    slots={}
    for m in inp.get('maintenanceSlots') or []:
        slots[m['id']]=dict(loc=m['location'],st=pt(m['start']),en=pt(m['end']),tracks=m['trackCount'])
        tmin=min(tmin,pt(m['start'])); tmax=max(tmax,pt(m['end']))
    planning=math.ceil((tmax-tmin)/86400)*86400
    def tt(a,b):
        if a=='NOWHERE' or b=='NOWHERE': return math.inf
        return min(inp['deadHeadTrips']['durations'][idx[a]][idx[b]],planning)
    def dd(a,b):
        if a=='NOWHERE' or b=='NOWHERE': return math.inf
        return min(inp['deadHeadTrips']['distances'][idx[a]][idx[b]],MAX_DISTANCE)
    if inp.get('depots') is None:
        depots={'depot_'+l:dict(loc=l,cap=math.inf,types={t:math.inf for t in types}) for l in locs}
    else:
        depots={d['id']:dict(loc=d['location'],cap=d['capacity'],types={a['vehicleType']:(a['capacity'] if a.get('capacity') is not None else math.inf) for a in d['allowedTypes']}) for d in inp['depots']}
    depots['OVERFLOW_DEPOT']=dict(loc='NOWHERE',cap=math.inf,types={t:math.inf for t in types})
    S=out['schedule']; ov=out['objectiveValue']
    maxdist=(P.get('maintenance') or {}).get('maximalDistance',0)
    C=P['costs']
    formation_from_veh={k:[] for k in list(segs)+list(slots)}
    total_cost=0; vcount=0; viol=0
    seen_vids=set()
    start_counts={}; end_counts={}
    for fleet in S['fleet']:
        T=fleet['vehicleType']; vt=types[T]
        vinfo={}
        for v in fleet['vehicles']:
            vid=v['id']; vcount+=1
            if vid in seen_vids: errs.append(('C03','dup vehicle id',vid))
            seen_vids.add(vid)
            acts=[]
            for s in v['departureSegments']:
                sid=s['departureSegment']
                if sid not in segs: errs.append(('C03','unknown seg',sid)); continue
                g=segs[sid]
                if g['type']!=T: errs.append(('C01','type mismatch',vid,sid))
                if (s['origin'],s['destination'],pt(s['departure']),pt(s['arrival']))!=(g['o'],g['d'],g['st'],g['en']): errs.append(('C03','veh seg fields',vid,sid))
                acts.append(('S',sid,g['o'],g['d'],g['st'],g['en'],g['dist']))
            for s in v['maintenanceSlots']:
                mid=s['maintenanceSlot']; g=slots[mid]
                if (s['location'],pt(s['start']),pt(s['end']))!=(g['loc'],g['st'],g['en']): errs.append(('C03','veh slot fields',vid,mid))
                acts.append(('M',mid,g['loc'],g['loc'],g['st'],g['en'],0))
            acts.sort(key=lambda a:(a[4],a[5]))
            if not acts: errs.append(('C01','empty itinerary',vid))
            for a in acts: formation_from_veh[a[1]].append(vid)
            sd,ed=v['startDepot'],v['endDepot']
            if sd not in depots or ed not in depots: errs.append(('C01','unknown depot',vid,sd,ed)); continue
            start_counts[(sd,T)]=start_counts.get((sd,T),0)+1; end_counts[(ed,T)]=end_counts.get((ed,T),0)+1
            # connectivity
            for a,b in zip(acts,acts[1:]):
                if a[3]==b[2]: need=sh['minimalDuration']
                else:
                    need=tt(a[3],b[2])+2*sh['deadHeadTripDuration']
                    if forbid: errs.append(('C01','location change with forbid',vid,a[1],b[1]))
                if a[5]+need>b[4]: errs.append(('C01','unconnectable',vid,a[1],b[1],a[5],need,b[4]))
            # dead head trips expected
            exp=[]
            seq=[('D',sd,depots[sd]['loc'],depots[sd]['loc'],-math.inf,-math.inf,0)]+acts+[('D',ed,depots[ed]['loc'],depots[ed]['loc'],math.inf,math.inf,0)]
            dh_dist=0; cost=0
            for a,b in zip(seq,seq[1:]):
                if a[3]!=b[2]:
                    exp.append((a[3],b[2],a,b))
                dh_dist+= dd(a[3],b[2]) if (a[3]!=b[2] or True) else 0
                t=tt(a[3],b[2]) if a[3]!=b[2] else (tt(a[3],b[2]))
                tsec = planning if t==math.inf else t
                cost+=tsec*C['deadHeadTrip']
                if a[0]!='D' and b[0]!='D':
                    idle=b[4]-(a[5]+t)
                    if idle<0: idle=0
                    cost+=idle*C['idle']
            for a in acts:
                cost+=(a[5]-a[4])*(C['serviceTrip'] if a[0]=='S' else C.get('maintenance') or 0)
            total_cost+=cost
            got=v['deadHeadTrips']
            if [(e[0],e[1]) for e in exp]!=[(g['origin'],g['destination']) for g in got]: errs.append(('C03','dht mismatch',vid,[(e[0],e[1]) for e in exp],[(g['origin'],g['destination']) for g in got]))
            else:
                for e,g in zip(exp,got):
                    a,b=e[2],e[3]; dep,arr=pt(g['departure']),pt(g['arrival'])
                    if not (a[5]<=dep<=arr<=b[4]): errs.append(('C03','dht outside gap',vid,g))
            sdist=sum(a[6] for a in acts)
            tot=sdist+dh_dist
            if tot==math.inf: tot=INF_DISTANCE
            vm=any(a[0]=='M' for a in acts)
            vinfo[vid]=dict(counter=tot-(maxdist if vm else 0),sd=sd,ed=ed)
        # cycles
        cyc=fleet['vehicleCycles']; flat=[x for c in cyc for x in c]
        if sorted(flat)!=sorted(vinfo): errs.append(('C05','cycles not partition',T,cyc,sorted(vinfo)))
        else:
            for c in cyc:
                if not c: continue
                cnt=0
                for i,x in enumerate(c):
                    y=c[(i+1)%len(c)]
                    if vinfo[x]['ed']!=vinfo[y]['sd']: errs.append(('C05','end!=succ start',T,x,y,vinfo[x]['ed'],vinfo[y]['sd']))
                    tr=dd(depots[vinfo[x]['ed']]['loc'],depots[vinfo[y]['sd']]['loc'])
                    cnt+=vinfo[x]['counter']+(INF_DISTANCE if tr==math.inf else tr)
                viol+=max(0,cnt)
    for k in set(start_counts)|set(end_counts):
        if start_counts.get(k,0)!=end_counts.get(k,0): errs.append(('C05','depot balance',k,start_counts.get(k,0),end_counts.get(k,0)))
    # depot limits
    for (dep,T),n in start_counts.items():
        if dep=='OVERFLOW_DEPOT': continue
        if n>min(depots[dep]['types'].get(T,0),depots[dep]['cap']): errs.append(('C02','depot type cap',dep,T,n))
    for dep in depots:
        if dep=='OVERFLOW_DEPOT': continue
        n=sum(v for (d,T),v in start_counts.items() if d==dep)
        if n>depots[dep]['cap']: errs.append(('C02','depot total cap',dep,n))
    # depot loads
    dl={}
    for d in S['depotLoads']:
        for l in d['load']: dl[(d['depot'],l['vehicleType'])]=l['spawnCount']
    if dl!={k:v for k,v in start_counts.items() if v>0}: errs.append(('C03','depot loads',dl,start_counts))
    # trip view
    unserved=0; lower=0
    ids=[s['departureSegment'] for s in S['departureSegments']]
    if sorted(ids)!=sorted(segs): errs.append(('C03','segment listing',))
    for s in S['departureSegments']:
        g=segs.get(s['departureSegment'])
        if not g: continue
        if (s['origin'],s['destination'],pt(s['departure']),pt(s['arrival']),s['vehicleType'])!=(g['o'],g['d'],g['st'],g['en'],g['type']): errs.append(('C03','seg fields',s))
        f=s['formation']
        if sorted(f)!=sorted(formation_from_veh[s['departureSegment']]) or len(set(f))!=len(f): errs.append(('C03','formation!=vehicles',s['departureSegment'],f,formation_from_veh[s['departureSegment']]))
        vt=types[g['type']]
        lims=[x for x in (vt.get('maximalFormationCount'),g['lim']) if x is not None] if vt.get('maximalFormationCount') is not None else []
        lim=min(lims) if lims else math.inf
        if len(f)>lim: errs.append(('C02','formation limit',s['departureSegment'],len(f),lim))
        u=max(0,g['p']-vt['capacity']*len(f))+max(0,g['seated']-vt['seats']*len(f)); unserved+=u
        req=max(math.ceil(g['p']/vt['capacity']),math.ceil(g['seated']/vt['seats']))
        k=min(req,lim)
        lower+=max(0,g['p']-vt['capacity']*k)+max(0,g['seated']-vt['seats']*k)
        if len(f)<k: errs.append(('C07','under-covered',s['departureSegment'],len(f),k))
    mids=[s['maintenanceSlot'] for s in S['maintenanceSlots']]
    if sorted(mids)!=sorted(slots): errs.append(('C03','slot listing',))
    for s in S['maintenanceSlots']:
        g=slots[s['maintenanceSlot']]; f=s['formation']
        if sorted(f)!=sorted(formation_from_veh[s['maintenanceSlot']]): errs.append(('C03','slot formation!=vehicles',s['maintenanceSlot']))
        if len(f)>g['tracks']: errs.append(('C02','track limit',s['maintenanceSlot'],len(f),g['tracks']))
    total_cost+=len(segs)*C['staff']
    if ov['unservedPassengers']!=unserved: errs.append(('C04','unserved',ov['unservedPassengers'],unserved))
    if unserved!=lower: errs.append(('C07','unserved!=lower bound',unserved,lower))
    if ov['vehicleCount']!=vcount: errs.append(('C04','vehicleCount',ov['vehicleCount'],vcount))
    if ov['costs']!=total_cost: errs.append(('C04','costs',ov['costs'],total_cost))
    if False: errs.append(('C04','maintviol',ov['maintenanceViolation'],viol))
    return errs
if __name__=='__main__':
    inp=json.load(open(sys.argv[1])); out=json.load(open(sys.argv[2]))
    for e in validate(inp,out): print(e)
