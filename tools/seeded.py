#!/usr/bin/env python3
"""Seeded changes written by independent sub-agents (given only a property's text and a scratch
worktree). Two jobs:
  seeded.py confirm  : in the scratch worktree /tmp/seed/<ID>: the change applies, the existing
                       test suite passes with it, the demonstration fails with it and passes without
  seeded.py detect   : apply each change to /repo's working tree, run the listed quick checks,
                       undo it straight afterwards (never committed)
Results go to /verif/notes/seeded_confirm.json / seeded_detect.json."""
import json, os, subprocess, sys, shutil, time

SRC = os.environ.get("SEEDED_SRC", "/tmp/seed")
# id, k, demo file, destination in worktree (None = external script), run command, checks to run
T = [
 ("C01", 1, "demo1.rs", "server/tests/c01_demo1.rs", "cargo test --offline -p server --test c01_demo1", ["C01", "C17"]),
 ("C01", 2, "demo2.rs", "server/tests/c01_demo2.rs", "cargo test --offline -p server --test c01_demo2", ["C01", "C12", "C13"]),
 ("C02", 1, "demo1.rs", "internal/tests/c02_demo1.rs", "cargo test --offline -p internal --test c02_demo1", ["C02", "C17"]),
 ("C02", 2, "demo2.rs", "internal/tests/c02_demo2.rs", "cargo test --offline -p internal --test c02_demo2", ["C02", "C10"]),
 ("C03", 1, "demo1.rs", "server/tests/c03_demo1.rs", "cargo test --offline -p server --test c03_demo1", ["C03", "C10", "C11"]),
 ("C03", 2, "demo2.rs", "server/tests/c03_demo2.rs", "cargo test --offline -p server --test c03_demo2", ["C03"]),
 ("C04", 1, "demo1.rs", "solution/tests/demo1.rs", "cargo test --offline -p solution --test demo1", ["C04", "C15", "C09"]),
 ("C04", 2, "demo2.rs", "server/tests/demo2.rs", "cargo test --offline -p server --features verif --test demo2", ["C04", "C09", "C12"]),
 ("C05", 1, "demo1.rs", "server/tests/c05_demo1.rs", "cargo test --offline -p server --test c05_demo1", ["C05", "C13"]),
 ("C05", 2, "demo2.rs", "server/tests/c05_demo2.rs", "cargo test --offline -p server --test c05_demo2", ["C05", "C16"]),
 ("C06", 1, "demo1.json", None, "cargo run --offline --release --bin single_run -- /tmp/seed/C06-out/demo1.json", ["C06"]),
 ("C06", 2, "demo2.json", None, "timeout 90 cargo run --offline --release --bin single_run -- /tmp/seed/C06-out/demo2.json", ["C06", "C15"]),
 ("C07", 1, "demo1.json", None, "/tmp/seed/C07-out/run_demo.sh 1", ["C07", "C17"]),
 ("C07", 2, "demo2.json", None, "/tmp/seed/C07-out/run_demo.sh 2", ["C07", "C08"]),
 ("C08", 1, "demo1.rs", "server/tests/demo1.rs", "cargo test --offline -p server --features verif --test demo1", ["C08"]),
 ("C08", 2, "demo2.rs", "server/tests/demo2.rs", "cargo test --offline -p server --features verif --test demo2", ["C08"]),
 ("C09", 1, "demo1.rs", "solution/tests/c09_demo1.rs", "cargo test --offline -p solution --test c09_demo1", ["C09", "C12"]),
 ("C09", 2, "demo2.rs", "solution/tests/c09_demo2.rs", "cargo test --offline -p solution --test c09_demo2", ["C09", "C13"]),
 ("C10", 1, "demo1.rs", "solution/tests/c10_demo1.rs", "cargo test --offline -p solution --test c10_demo1", ["C10", "C13"]),
 ("C10", 2, "demo2.rs", "solution/tests/c10_demo2.rs", "cargo test --offline -p solution --test c10_demo2", ["C10", "C13"]),
 ("C11", 1, "demo1.rs", "solver/tests/c11_demo1.rs", "cargo test --offline -p solver --test c11_demo1", ["C11"]),
 ("C11", 2, "demo2.rs", "solver/tests/c11_demo2.rs", "cargo test --offline -p solver --test c11_demo2", ["C11", "C09"]),
 ("C12", 1, "demo1.rs", "solution/tests/c12_demo1.rs", "cargo test --offline -p solution --test c12_demo1", ["C12", "C13"]),
 ("C12", 2, "demo2.rs", "solution/tests/c12_demo2.rs", "cargo test --offline -p solution --test c12_demo2", ["C12", "C13"]),
 ("C13", 1, "demo1.rs", "solution/tests/c13_demo1.rs", "cargo test --offline -p solution --test c13_demo1", ["C13"]),
 ("C13", 2, "demo2.rs", "solution/tests/c13_demo2.rs", "cargo test --offline -p solution --test c13_demo2", ["C13", "C10"]),
 ("C14", 1, "demo1.rs", "solver/tests/c14_demo1.rs", "cargo test --offline -p solver --test c14_demo1", ["C14"]),
 ("C14", 2, "demo2.rs", "solver/tests/c14_demo2.rs", "cargo test --offline -p solver --test c14_demo2", ["C14", "C06"]),
 ("C15", 1, "demo1.rs", "solution/tests/c15_demo1.rs", "cargo test --offline -p solution --test c15_demo1", ["C15", "C09"]),
 ("C15", 2, "demo2.rs", "solver/tests/c15_demo2.rs", "cargo test --offline -p solver --test c15_demo2", ["C15"]),
 ("C16", 1, "demo1.rs", "server/tests/c16_demo1.rs", "cargo test --offline -p server --test c16_demo1", ["C16"]),
 ("C16", 2, "demo2.rs", "server/tests/c16_demo2.rs", "cargo test --offline -p server --test c16_demo2", ["C16", "C05", "C13"]),
 ("C17", 1, "demo1.rs", "model/tests/c17_demo1.rs", "cargo test --offline -p model --test c17_demo1", ["C17"]),
 ("C17", 2, "demo2.rs", "model/tests/c17_demo2.rs", "cargo test --offline -p model --test c17_demo2", ["C17", "C01"]),
 ("C18", 1, "demo1.py", None, "python3 /tmp/seed/C18-out/demo1.py /tmp/seed/C18", ["C18"]),
 ("C18", 2, "demo2.py", None, "python3 /tmp/seed/C18-out/demo2.py /tmp/seed/C18", ["C18"]),
]

# second round (harder, rarer changes): key, worktree id, k, [(demo file, destination)], run command, checks
T2 = [
 ("R2_C14_1", "C14", 1, [("demo1.rs", "solver/tests/c14_demo1.rs")], "cargo test -p solver --offline --test c14_demo1 -- --test-threads=1", ["C14", "C17"]),
 ("R2_C14_2", "C14", 2, [("demo2.rs", "solver/tests/c14_demo2.rs")], "cargo test -p solver --offline --test c14_demo2 -- --test-threads=1", ["C14"]),
 ("R2_C01_3", "C14", 3, [("demo3.rs", "server/tests/c01_demo3.rs")], "cargo test -p server --offline --test c01_demo3 -- --test-threads=1", ["C01", "C17"]),
 ("R2_C13_1", "C13", 1, [("demo1.rs", "solution/tests/demo1.rs")], "cargo test -p solution --offline --test demo1", ["C13", "C10"]),
 ("R2_C11_2", "C13", 2, [("demo2.rs", "solver/tests/demo2.rs")], "cargo test -p solver --offline --test demo2", ["C11", "C09", "C15"]),
 ("R2_C13_3", "C13", 3, [("demo3.rs", "solution/tests/demo3.rs")], "cargo test -p solution --offline --test demo3", ["C13", "C10", "C11"]),
 ("R2_C18_1", "C18", 1, [], "python3 /tmp/seed/C18-out/demo1.py /tmp/seed/C18", ["C18"]),
 ("R2_C18_2", "C18", 2, [], "python3 /tmp/seed/C18-out/demo2.py /tmp/seed/C18", ["C18"]),
 ("R2_C10_3", "C18", 3, [("demo3.rs", "solution/tests/demo3.rs")], "cargo test --offline -p solution --test demo3", ["C10", "C13"]),
 ("R2_C08_1", "C08", 1, [("demo1.rs", "server/tests/c08_demo1.rs")], "cargo test -p server --features verif --offline --release --test c08_demo1", ["C08"]),
 ("R2_C08_2", "C08", 2, [("demo2.rs", "server/tests/c08_demo2.rs")], "cargo test -p server --features verif --offline --release --test c08_demo2", ["C08", "C04"]),
 ("R2_C16_1", "C16", 1, [("demo1.rs", "server/tests/demo1.rs"), ("demo1.json", "server/tests/demo1.json")], "cargo test -p server --features verif --offline --test demo1", ["C16"]),
 ("R2_C05_2", "C16", 2, [("demo2.rs", "server/tests/demo2.rs"), ("demo2.json", "server/tests/demo2.json")], "cargo test -p server --offline --test demo2", ["C05", "C16", "C13"]),
 ("R2_C04_1", "C04", 1, [("demo1.rs", "server/tests/c04_demo1.rs")], "cargo test --offline -p server --test c04_demo1", ["C04", "C09", "C11"]),
 ("R2_C04_2", "C04", 2, [("demo2.rs", "server/tests/c04_demo2.rs")], "cargo test --offline -p server --test c04_demo2", ["C04", "C15", "C16"]),
]

T3 = [
 ("R3_C15_1", "C15", 1, [("demo1.rs", "solution/tests/demo1.rs")], "cargo test -p solution --offline --test demo1", ["C15", "C09"]),
 ("R3_C15_2", "C15", 2, [("demo2.rs", "solution/tests/demo2.rs")], "cargo test -p solution --offline --test demo2", ["C15", "C10"]),
 ("R3_C17_3", "C15", 3, [("demo3.rs", "model/tests/demo3.rs")], "cargo test -p model --offline --test demo3", ["C17", "C07"]),
 ("R3_C17_4", "C15", 4, [("demo4.rs", "model/tests/demo4.rs")], "cargo test -p model --offline --test demo4", ["C17", "C01"]),
 ("R3_C09_1", "C09", 1, [("demo1.rs", "solution/tests/demo1.rs")], "cargo test -p solution --offline --test demo1", ["C09", "C12"]),
 ("R3_C09_2", "C09", 2, [("demo2.rs", "solution/tests/demo2.rs")], "cargo test -p solution --offline --test demo2", ["C09", "C11"]),
 ("R3_C12_3", "C09", 3, [("demo3.rs", "solution/tests/demo3.rs")], "cargo test -p solution --offline --test demo3", ["C12", "C13", "C10"]),
 ("R3_C12_4", "C09", 4, [("demo4.rs", "solution/tests/demo4.rs")], "cargo test -p solution --offline --test demo4", ["C12", "C06", "C11"]),
 ("R3_C06_1", "C06", 1, [], "cargo run --offline --release --bin single_run -- /tmp/seed/C06-out/demo1.json", ["C06", "C17"]),
 ("R3_C06_2", "C06", 2, [], "cargo run --offline --bin single_run -- /tmp/seed/C06-out/demo2.json", ["C06", "C11"]),
 ("R3_C07_3", "C06", 3, [], "bash -c 'cargo run --offline --release --bin single_run -- /tmp/seed/C06-out/demo3.json >/dev/null 2>&1; python3 /tmp/seed/C06-out/check_c07.py /tmp/seed/C06-out/demo3.json output/output_demo3.json'", ["C07", "C08"]),
 ("R3_C02_1", "C02", 1, [("demo1.rs", "server/tests/c02_demo1.rs")], "cargo test -p server --offline --test c02_demo1", ["C02", "C10"]),
 ("R3_C03_2", "C02", 2, [("demo2.rs", "server/tests/c03_demo2.rs")], "cargo test -p server --offline --test c03_demo2", ["C03"]),
 ("R3_C03_3", "C02", 3, [("demo3.rs", "server/tests/c03_demo3.rs")], "cargo test -p server --offline --test c03_demo3", ["C03", "C02", "C17"]),
]

T4 = [
 ("R4_C01_1", "C01", 1, [("demo1.rs", "server/tests/demo1.rs")], "cargo test -p server --offline --test demo1", ["C01", "C17"]),
 ("R4_C02_2", "C01", 2, [("demo2.rs", "server/tests/demo2.rs")], "cargo test -p server --offline --test demo2", ["C02", "C17"]),
 ("R4_C17_3", "C01", 3, [("demo3.rs", "model/tests/demo3.rs")], "cargo test -p model --offline --test demo3", ["C17"]),
 ("R4_C03_1", "C03", 1, [("demo1.rs", "server/tests/demo1.rs")], "cargo test --offline -p server --test demo1", ["C03"]),
 ("R4_C04_2", "C03", 2, [("demo2.rs", "server/tests/demo2.rs")], "cargo test --offline -p server --test demo2", ["C04", "C17", "C09"]),
 ("R4_C07_3", "C03", 3, [("demo3.rs", "server/tests/demo3.rs")], "cargo test --offline -p server --test demo3", ["C07", "C14"]),
 ("R4_C05_1", "C05", 1, [("demo1.rs", "server/tests/r4_demo1.rs")], "cargo test --offline -p server --features verif --test r4_demo1", ["C05", "C16", "C11", "C08"]),
 ("R4_C05_2", "C05", 2, [("demo2.rs", "server/tests/r4_demo2.rs")], "cargo test --offline -p server --features verif --test r4_demo2", ["C05", "C16", "C11", "C08"]),
 ("R4_C05_3", "C05", 3, [("demo3.rs", "server/tests/r4_demo3.rs")], "cargo test --offline -p server --features verif --test r4_demo3", ["C05", "C16", "C11", "C08"]),
]

T5 = [
 ("R5_C09_1", "A", 1, [("demo1.rs", "solution/tests/demo1.rs")], "cargo test -p solution --offline --test demo1", ["C09", "C12", "C13"]),
 ("R5_C10_2", "A", 2, [("demo2.rs", "solution/tests/demo2.rs")], "cargo test -p solution --offline --test demo2", ["C10", "C13", "C02"]),
 ("R5_C10_3", "A", 3, [("demo3.rs", "solution/tests/demo3.rs")], "cargo test -p solution --offline --test demo3", ["C10", "C12", "C13"]),
 ("R5_C12_1", "B", 1, [("demo1.rs", "solution/tests/demo1.rs")], "cargo test -p solution --offline --test demo1", ["C12", "C10"]),
 ("R5_C15_2", "B", 2, [("demo2.rs", "solution/tests/demo2.rs")], "cargo test -p solution --offline --test demo2", ["C15", "C09", "C11", "C04"]),
 ("R5_C17_3", "B", 3, [("demo3.rs", "model/tests/demo3.rs")], "cargo test -p model --offline --test demo3", ["C17", "C01"]),
 ("R5_C14_1", "C", 1, [("demo1.rs", "solver/tests/demo1.rs")], "cargo test -p solver --offline --test demo1", ["C14"]),
 ("R5_C04_2", "C", 2, [("demo2.rs", "solver/tests/demo2.rs")], "cargo test -p solver --offline --test demo2", ["C04", "C09", "C11", "C15"]),
 ("R5_C03_3", "C", 3, [("demo3.rs", "server/tests/demo3.rs")], "cargo test -p server --offline --test demo3", ["C03"]),
 ("R5_C11_1", "D", 1, [("demo1.rs", "solver/tests/demo1.rs")], "cargo test -p solver --offline --test demo1", ["C11", "C08", "C09", "C15"]),
 ("R5_C16_2", "D", 2, [("demo2.rs", "server/tests/demo2.rs")], "cargo test -p server --offline --test demo2", ["C16", "C03"]),
 ("R5_C08_3", "D", 3, [("demo3.rs", "solver/tests/demo3.rs")], "cargo test -p solver --offline --test demo3", ["C08"]),
]

T6 = [
 ("R6_C02_1", "E", 1, [("demo1.rs", "server/tests/demo1.rs")], "cargo test -p server --offline --test demo1", ["C02", "C10", "C11"]),
 ("R6_C02_2", "E", 2, [("demo2.rs", "solution/tests/demo2.rs")], "cargo test -p solution --offline --test demo2", ["C02", "C10", "C13"]),
 ("R6_C05_3", "E", 3, [("demo3.rs", "internal/tests/demo3.rs")], "cargo test -p internal --offline --test demo3", ["C05", "C16"]),
 ("R6_C17_1", "G", 1, [("demo1.rs", "model/tests/demo1.rs")], "cargo test -p model --offline --test demo1", ["C17", "C01"]),
 ("R6_C16_2", "G", 2, [("demo2.rs", "internal/tests/demo2.rs")], "cargo test -p internal --offline --test demo2", ["C16", "C05", "C04"]),
 ("R6_C18_1", "F", 1, [("demo1.rs", "server/tests/demo1.rs")], "cargo test -p server --offline --test demo1", ["C18"]),
 ("R6_C13_2", "F", 2, [("demo2.rs", "solution/tests/demo2.rs")], "cargo test -p solution --offline --test demo2", ["C13", "C10", "C09"]),
 ("R6_C18_3", "F", 3, [("demo3.rs", "server/tests/demo3.rs")], "cargo test -p server --offline --test demo3", ["C18"]),
 ("R6_C01_3", "G", 3, [("demo3.rs", "server/tests/demo3.rs")], "cargo test -p server --offline --test demo3", ["C01", "C12", "C10"]),
]

# seventh round (SEEDED_SRC=/tmp/s7): one property text per agent, 12-minute limit
T7 = [
 ("R7_C02_1", "A", 1, [("demo.rs", "server/tests/demo.rs")], "cargo test -p server --offline --test demo", ["C02", "C10", "C14"]),
 ("R7_C13_1", "B", 1, [("demo.rs", "solution/tests/demo.rs")], "cargo test -p solution --offline --test demo", ["C13", "C10", "C09"]),
 ("R7_C16_1", "C", 1, [("demo.rs", "server/tests/demo.rs")], "cargo test -p server --offline --test demo", ["C16", "C05", "C04"]),
 ("R7_C04_1", "D", 1, [("demo.rs", "server/tests/demo.rs")], "cargo test -p server --offline --test demo", ["C04", "C09", "C11"]),
]

# eighth round (SEEDED_SRC=/tmp/s8): one property text per agent, 5-minute limit
T8 = [
 ("R8_C09_1", "A", 1, [("demo.rs", "solution/tests/demo.rs")], "cargo test -p solution --offline --test demo", ["C09", "C11"]),
 ("R8_C15_1", "B", 1, [("demo.rs", "solution/tests/demo.rs")], "cargo test -p solution --offline --test demo", ["C15"]),
 ("R8_C05_1", "C", 1, [("demo.rs", "server/tests/demo.rs")], "cargo test -p server --offline --test demo", ["C05", "C16"]),
]

# ninth round (SEEDED_SRC=/tmp/s9): one property text per agent, 4-minute limit
T9 = [
 ("R9_C10_1", "A", 1, [("demo.rs", "solution/tests/demo.rs")], "cargo test -p solution --offline --test demo", ["C10"]),
 ("R9_C12_1", "B", 1, [("demo.rs", "solution/tests/demo.rs")], "cargo test -p solution --offline --test demo", ["C12"]),
 ("R9_C17_1", "C", 1, [("demo.rs", "model/tests/demo.rs")], "cargo test -p model --offline --test demo", ["C17"]),
]

def confirm2(only):
    path = os.environ.get("SEEDED_CONFIRM2_PATH", "/verif/notes/seeded2_confirm.json")
    res = json.load(open(path)) if os.path.exists(path) else {}
    for (key, wtid, k, demos, cmd, _checks) in T2 + T3 + T4 + T5 + T6 + T7 + T8 + T9:
        if only and key not in only:
            continue
        wt = "%s/%s" % (SRC, wtid); out = "%s/%s-out" % (SRC, wtid)
        diff = "%s/change%d.diff" % (out, k)
        if not os.path.exists(diff):
            res[key] = {"error": "no diff"}; print(key, res[key]); continue
        sh("git checkout -- . && git clean -fdq -e target -e Cargo.lock -e output", cwd=wt)
        rc, o = sh("git apply %s" % diff, cwd=wt)
        if rc != 0:
            res[key] = {"error": "patch does not apply"}; print(key, res[key]); continue
        rc_t, o_t = sh("cargo test --workspace --offline 2>&1 | grep -E 'test result|^error' ", cwd=wt)
        tests_pass = ("FAILED" not in o_t) and ("error" not in o_t) and ("51 passed" in o_t)
        for (d, dest) in demos:
            os.makedirs(os.path.dirname(os.path.join(wt, dest)), exist_ok=True)
            shutil.copy(os.path.join(out, d), os.path.join(wt, dest))
        rc_with, o_with = sh(cmd, cwd=wt, timeout=2400)
        sh("git checkout -- .", cwd=wt)
        rc_without, o_without = sh(cmd, cwd=wt, timeout=2400)
        for (d, dest) in demos:
            os.remove(os.path.join(wt, dest))
        sh("git checkout -- . && git clean -fdq -e target -e Cargo.lock -e output", cwd=wt)
        res[key] = {"tests_pass_with_change": tests_pass, "demo_exit_with_change": rc_with, "demo_exit_without_change": rc_without,
                    "confirmed": bool(tests_pass and rc_with != 0 and rc_without == 0), "demo_cmd": cmd, "demo_tail_with_change": o_with[-400:]}
        print(key, {k2: v for k2, v in res[key].items() if k2 not in ("demo_tail_with_change", "demo_cmd")}, flush=True)
        json.dump(res, open(path, "w"), indent=1)

def detect2(only):
    path = os.environ.get("SEEDED_DETECT2_PATH", "/verif/notes/seeded2_detect.json")
    res = json.load(open(path)) if os.path.exists(path) else {}
    if sh("git -C /repo diff --quiet")[0] != 0:
        print("/repo dirty"); sys.exit(2)
    for (key, wtid, k, demos, cmd, checks) in T2 + T3 + T4 + T5 + T6 + T7 + T8 + T9:
        if only and key not in only:
            continue
        diff = "%s/%s-out/change%d.diff" % (SRC, wtid, k)
        if not os.path.exists(diff):
            diff = "/verif/seeded/%s/patch.diff" % key
        if os.path.exists("/verif/seeded/%s/patch_rebased.diff" % key):
            diff = "/verif/seeded/%s/patch_rebased.diff" % key
        if not os.path.exists(diff):
            print(key, "no diff"); continue
        rc, o = sh("git -C /repo apply %s" % diff)
        if rc != 0:
            res[key] = {"error": "patch does not apply"}; print(key, res[key]); continue
        try:
            verdicts = {}
            for c in checks:
                t0 = time.time()
                rc, o = sh("cd /verif && ./check %s %s" % (c, os.environ.get("SEEDED_ARGS", "")), timeout=6000)
                lines = o.splitlines(); first = ""
                for i, l in enumerate(lines):
                    if l.startswith("VIOLATION") and i + 1 < len(lines):
                        first = lines[i + 1].strip()[:260]; break
                verdicts[c] = {"exit": rc, "first": first, "secs": round(time.time() - t0, 1)}
            res[key] = {"checks": verdicts, "caught_by": [c for c, v in verdicts.items() if v["exit"] == 1], "args": os.environ.get("SEEDED_ARGS", "")}
            print(key, "caught_by=%s" % res[key]["caught_by"], {c: v["exit"] for c, v in verdicts.items()}, flush=True)
        finally:
            sh("git -C /repo checkout -- .")
        json.dump(res, open(path, "w"), indent=1)

def sh(cmd, cwd=None, timeout=3600):
    try:
        r = subprocess.run(cmd, shell=True, capture_output=True, text=True, cwd=cwd, timeout=timeout)
        return r.returncode, r.stdout + r.stderr
    except subprocess.TimeoutExpired:
        return 124, "timeout"

def confirm(only):
    path = "/verif/notes/seeded_confirm.json"
    res = json.load(open(path)) if os.path.exists(path) else {}
    for (pid, k, demo, dest, cmd, _checks) in T:
        key = "%s_%d" % (pid, k)
        if only and key not in only and pid not in only:
            continue
        wt = "%s/%s" % (SRC, pid)
        out = "%s/%s-out" % (SRC, pid)
        diff = "%s/change%d.diff" % (out, k)
        if not os.path.exists(diff):
            res[key] = {"error": "no diff"}; continue
        sh("git checkout -- . && git clean -fdq -e target -e Cargo.lock -e output", cwd=wt)
        rc, o = sh("git apply %s" % diff, cwd=wt)
        if rc != 0:
            res[key] = {"error": "patch does not apply: " + o[-300:]}; print(key, res[key]); continue
        rc_t, o_t = sh("cargo test --workspace --offline 2>&1 | grep -E 'test result|^error' ", cwd=wt)
        tests_pass = ("FAILED" not in o_t) and ("error" not in o_t) and ("51 passed" in o_t)
        if dest:
            os.makedirs(os.path.dirname(os.path.join(wt, dest)), exist_ok=True)
            shutil.copy(os.path.join(out, demo), os.path.join(wt, dest))
        rc_with, o_with = sh(cmd, cwd=wt, timeout=1500)
        sh("git checkout -- .", cwd=wt)
        rc_without, o_without = sh(cmd, cwd=wt, timeout=1500)
        if dest:
            os.remove(os.path.join(wt, dest))
        sh("git checkout -- . && git clean -fdq -e target -e Cargo.lock -e output", cwd=wt)
        res[key] = {"tests_pass_with_change": tests_pass, "demo_exit_with_change": rc_with, "demo_exit_without_change": rc_without,
                    "confirmed": bool(tests_pass and rc_with != 0 and rc_without == 0), "demo_cmd": cmd,
                    "demo_tail_with_change": o_with[-400:]}
        print(key, {k2: v for k2, v in res[key].items() if k2 not in ("demo_tail_with_change", "demo_cmd")}, flush=True)
        json.dump(res, open(path, "w"), indent=1)

def detect(only):
    path = os.environ.get("SEEDED_DETECT_PATH", "/verif/notes/seeded_detect.json")
    res = json.load(open(path)) if os.path.exists(path) else {}
    if sh("git -C /repo diff --quiet")[0] != 0:
        print("/repo dirty"); sys.exit(2)
    for (pid, k, demo, dest, cmd, checks) in T:
        key = "%s_%d" % (pid, k)
        if only and key not in only and pid not in only:
            continue
        diff = "%s/%s-out/change%d.diff" % (SRC, pid, k)
        if not os.path.exists(diff):
            diff = "/verif/seeded/%s_%d/patch.diff" % (pid, k)
        rc, o = sh("git -C /repo apply %s" % diff)
        if rc != 0:
            res[key] = {"error": "patch does not apply"}; print(key, res[key]); continue
        try:
            verdicts = {}
            for c in checks:
                t0 = time.time()
                rc, o = sh("cd /verif && ./check %s" % c, timeout=3000)
                lines = o.splitlines()
                first = ""
                for i, l in enumerate(lines):
                    if l.startswith("VIOLATION") and i + 1 < len(lines):
                        first = lines[i + 1].strip()[:260]; break
                verdicts[c] = {"exit": rc, "first": first, "secs": round(time.time() - t0, 1)}
            res[key] = {"checks": verdicts, "caught_by": [c for c, v in verdicts.items() if v["exit"] == 1]}
            print(key, "caught_by=%s" % res[key]["caught_by"], {c: v["exit"] for c, v in verdicts.items()}, flush=True)
        finally:
            sh("git -C /repo checkout -- .")
        json.dump(res, open(path, "w"), indent=1)

def redetect(only):
    """Sensitivity regression: every seeded change once more against the check that caught it
    first (all listed checks if none did). Results in notes/final/redetect.json."""
    path = "/verif/notes/final/redetect.json"
    res = json.load(open(path)) if os.path.exists(path) else {}
    d1 = json.load(open("/verif/notes/seeded_detect.json")); d2 = json.load(open("/verif/notes/seeded2_detect.json"))
    if sh("git -C /repo diff --quiet")[0] != 0:
        print("/repo dirty"); sys.exit(2)
    items = [("%s_%d" % (pid, k), checks) for (pid, k, _d, _dest, _cmd, checks) in T] + [(key, checks) for (key, _w, _k, _dm, _cmd, checks) in T2 + T3 + T4 + T5 + T6 + T7 + T8 + T9]
    for key, checks in items:
        if (only and key not in only) or key in res:
            continue
        prev = (d1.get(key) or d2.get(key) or {}).get("caught_by") or []
        meta = "/verif/seeded/%s/meta.json" % key
        if not prev and os.path.exists(meta):
            prev = json.load(open(meta)).get("caught_by") or []
        run = prev[:1] if prev else checks
        diff = "/verif/seeded/%s/patch_rebased.diff" % key
        if not os.path.exists(diff):
            diff = "/verif/seeded/%s/patch.diff" % key
        rc, o = sh("git -C /repo apply %s" % diff)
        if rc != 0:
            res[key] = {"error": "patch does not apply"}; print(key, res[key], flush=True); json.dump(res, open(path, "w"), indent=1); continue
        try:
            verdicts = {}
            for c in run:
                rc, o = sh("cd /verif && ./check %s" % c, timeout=3000)
                verdicts[c] = rc
                if rc == 1:
                    break
            res[key] = {"checks": verdicts, "caught": any(v == 1 for v in verdicts.values()), "previously_caught_by": prev}
            print(key, res[key], flush=True)
        finally:
            sh("git -C /repo checkout -- .")
        json.dump(res, open(path, "w"), indent=1)

if __name__ == "__main__":
    mode = sys.argv[1]
    only = set(sys.argv[2:])
    {"confirm": confirm, "detect": detect, "confirm2": confirm2, "detect2": detect2, "redetect": redetect}[mode](only)
