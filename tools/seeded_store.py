#!/usr/bin/env python3
"""seeded_store.py <key> <wtid> <k> <what> : copy a confirmed sub-agent change from $SEEDED_SRC/<wtid>-out into
/verif/seeded/<key>/ and write meta.json from notes/seeded2_confirm.json and notes/seeded2_detect.json."""
import json, os, shutil, sys
sys.path.insert(0, os.path.dirname(__file__))
import seeded

key, wtid, k, what = sys.argv[1], sys.argv[2], int(sys.argv[3]), sys.argv[4]
SRC = os.environ.get("SEEDED_SRC", "/tmp/seed")
rounds = [seeded.T2, seeded.T3, seeded.T4, seeded.T5, seeded.T6] + [getattr(seeded, n) for n in ("T7", "T8", "T9") if hasattr(seeded, n)]
ent = [e for t in rounds for e in t if e[0] == key][0]
_, _, _, demos, cmd, checks = ent
out = "%s/%s-out" % (SRC, wtid)
dst = "/verif/seeded/%s" % key
os.makedirs(dst, exist_ok=True)
shutil.copy("%s/change%d.diff" % (out, k), dst + "/patch.diff")
for d, _ in demos:
    shutil.copy(os.path.join(out, d), dst)
if os.path.exists(out + "/notes.md"):
    shutil.copy(out + "/notes.md", dst)
conf = json.load(open("/verif/notes/seeded2_confirm.json")).get(key, {})
det = json.load(open(os.environ.get("SEEDED_DETECT2_PATH", "/verif/notes/seeded2_detect.json"))).get(key, {})
props = {json.loads(l)["id"]: json.loads(l) for l in open("/verif/properties.jsonl")}
pid = key.split("_")[1]
files = sorted({l.split(" b/")[1].strip() for l in open(dst + "/patch.diff") if l.startswith("diff --git")})
meta = {
    "id": key, "round": int(key[1]), "breaks_property": pid, "property_title": props[pid]["title"],
    "origin": "round %s: a fresh sub-agent got only the text of this property and its own scratch worktree of /repo; nothing from /verif was given." % key[1],
    "needs_to_manifest": "see notes.md", "files": ", ".join(files), "what": what,
    "demonstration": {"files": [d for d, _ in demos], "install_as": [p for _, p in demos], "run": cmd},
    "confirmed_in_scratch_worktree": conf,
    "what_i_ran": ["git apply patch.diff in the agent's scratch worktree (removed afterwards)",
                   "cargo test --workspace --offline -> passes with the change",
                   "demo command -> fails with the change, passes after git checkout -- .",
                   "git -C /repo apply patch.diff ; ./check <ID> ; git -C /repo checkout -- ."],
    "checks_run_against_it": det.get("checks", {}), "caught_by": det.get("caught_by", []),
}
json.dump(meta, open(dst + "/meta.json", "w"), indent=1)
print(key, "stored; confirmed=%s caught_by=%s" % (conf.get("confirmed"), meta["caught_by"]))
