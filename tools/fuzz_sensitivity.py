#!/usr/bin/env python3
"""Does the libFuzzer campaign alone (from 24 generated seeds) find a mutation? Applies a kill_list
mutation to /repo's working tree, runs the target for a bounded time, restores the tree."""
import subprocess, sys, os, json, re, time
src=open('/verif/tools/kill_list.py').read()
M=eval(src[src.index('M = ['):src.index(']\n\ndef sh')+1].replace('M = ',''))
PAIRS=[("c17_capacity_unclamped","fuzz_loader","C17"),("c13_replace_loses_position","fuzz_history","C13"),("c15_remove_keeps_lookup","fuzz_transition","C15"),("c14_idle_cost_dropped","fuzz_mcf","C14"),("c12_removable_bound","fuzz_tour","C12"),("c01_forbid_ignored","fuzz_pipeline","C01"),("c09_visits_maintenance_rule","fuzz_history","C09")]
res={}
for name,target,pid in PAIRS:
    m=[x for x in M if x[0]==name][0]
    path='/repo/'+m[1]; s=open(path).read(); assert s.count(m[2])==1
    open(path,'w').write(s.replace(m[2],m[3]))
    try:
        F='/verif/harness/fuzz'
        b=subprocess.run('cd %s && cargo +nightly fuzz build %s'%(F,target),shell=True,capture_output=True,text=True)
        corp='%s/corpus/sens_%s'%(F,name); art='%s/artifacts/sens_%s/'%(F,name)
        subprocess.run('rm -rf %s %s; mkdir -p %s %s; /verif/harness/target/checked/rsv gen-corpus %s %s 24 5'%(corp,art,corp,art,pid,corp),shell=True)
        t0=time.time()
        r=subprocess.run('cd %s && VERIF_ROOT=/verif RSV_BIN_CHECKED=/verif/harness/target/checked/rsv target/x86_64-unknown-linux-gnu/release/%s %s -artifact_prefix=%s -max_total_time=150 -seed=3 -max_len=4096 -len_control=0 -timeout=120 2>&1 | grep -E "FUZZ-VIOLATION|^Done|DONE|stat::number_of_executed" | head -3'%(F,target,corp,art),shell=True,capture_output=True,text=True)
        found='FUZZ-VIOLATION' in r.stdout
        res[name]={"target":target,"found":found,"secs":round(time.time()-t0,1),"first":r.stdout.strip()[:300]}
        print(name,target,"FOUND" if found else "not found",round(time.time()-t0,1),r.stdout.strip()[:200],flush=True)
        subprocess.run('rm -rf %s %s'%(corp,art),shell=True)
    finally:
        open(path,'w').write(s)
json.dump(res,open('/verif/notes/fuzz_sensitivity.json','w'),indent=1)
subprocess.run('git -C /repo checkout -- .',shell=True)
