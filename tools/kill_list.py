#!/usr/bin/env python3
"""Sensitivity run: apply each hand-written mutation to /repo (working tree only), run the quick
checks that should notice it, record the verdict, and undo the mutation straight afterwards.
Nothing is ever committed to /repo. Usage: kill_list.py [name ...]"""
import json, subprocess, sys, os, time

REPO = "/repo"
M = [
 # name, file, old, new, checks
 ("c01_no_min_shunting", "model/src/network.rs",
  "            (Node::Service(_), Node::Service(_)) => self.config.shunting.minimal,",
  "            (Node::Service(_), Node::Service(_)) => Duration::ZERO,", ["C01", "C17", "C10"]),
 ("c01_forbid_ignored", "model/src/network.rs",
  "        if self.config.forbid_dead_head_trip && n1.end_location() != n2.start_location() {",
  "        if false && self.config.forbid_dead_head_trip && n1.end_location() != n2.start_location() {", ["C01", "C17"]),
 ("c02_formation_off_by_one", "solution/src/schedule/modifications.rs",
  "                                if old_formation.vehicle_count() >= max_length {",
  "                                if old_formation.vehicle_count() > max_length {", ["C10", "C11", "C02"]),
 ("c02_total_depot_capacity_dropped", "solution/src/schedule.rs",
  "            >= self.network.total_capacity_of(depot)\n        {\n            return false;\n        }",
  "            >= self.network.total_capacity_of(depot) + 1000\n        {\n            return false;\n        }", ["C02", "C10"]),
 ("c02_flow_upper_plus_one", "solver/src/min_cost_flow_solver.rs",
  "                    upper_bound: maximal_formation_count,",
  "                    upper_bound: maximal_formation_count + 1,", ["C14"]),
 ("c03_trip_view_skips_first", "solution/src/json_serialisation.rs",
  "        for service_trip_node_idx in network.service_nodes(vehicle_type) {",
  "        for service_trip_node_idx in network.service_nodes(vehicle_type).skip(1) {", ["C03"]),
 ("c03_dead_head_departure_late", "solution/src/json_serialisation.rs",
  "    let departure_time = node1.end_time();\n    let arrival_time = node1.end_time() + nw.minimal_duration_between_nodes(node1_idx, node2_idx);",
  "    let departure_time = node2.start_time();\n    let arrival_time = node2.start_time() + nw.minimal_duration_between_nodes(node1_idx, node2_idx);", ["C03"]),
 ("c04_delete_vehicle_keeps_costs", "solution/src/schedule/modifications.rs",
  "        costs -= tour.costs();\n\n        if let Ok(dummy_tour)",
  "        costs -= tour.costs() * 0;\n\n        if let Ok(dummy_tour)", ["C09", "C04", "C11"]),
 ("c04_replace_end_depot_cost_delta", "solution/src/tour/modifications.rs",
  "                .dead_head_time_between(last_non_depot, new_end_depot)\n                .in_sec()\n                .unwrap_or(self.network.planning_days().in_sec().unwrap())\n                * self.network.config().costs.dead_head_trip;",
  "                .dead_head_time_between(last_non_depot, self.last_node())\n                .in_sec()\n                .unwrap_or(self.network.planning_days().in_sec().unwrap())\n                * self.network.config().costs.dead_head_trip;", ["C09", "C04"]),
 ("c05_successor_is_self", "solution/src/transition.rs",
  "        let successor_position = (vehicle_position + 1) % cycle.len();",
  "        let successor_position = (vehicle_position) % cycle.len();", ["C05", "C15", "C13"]),
 ("c05_json_skips_last_cycle", "solution/src/json_serialisation.rs",
  "    for transtion_cylce in schedule.next_day_transition_of(vehicle_type).cycles_iter() {",
  "    for transtion_cylce in schedule.next_day_transition_of(vehicle_type).cycles_iter().skip(1) {", ["C05", "C16"]),
 ("c06_three_opt_underflow", "solver/src/transition_cycle_tsp/transition_cycle_neighborhood.rs",
  "(0..cycle_length.saturating_sub(2))", "(0..cycle_length - 2)", ["C06", "C15"]),
 ("c07_unbounded_formation_is_100", "solver/src/min_cost_flow_solver.rs",
  "                .map_or(unbounded_formation_count, |limit| limit as UpperBound);\n            let left_rsnode",
  "                .map_or(100, |limit| limit as UpperBound);\n            let left_rsnode", ["C07"]),
 ("c07_flow_lower_bound_minus_one", "solver/src/min_cost_flow_solver.rs",
  "            let lower_bound = number_of_vehicles_required.min(maximal_formation_count);",
  "            let lower_bound = (number_of_vehicles_required.min(maximal_formation_count) - 1).max(0);", ["C07", "C14"]),
 ("c07_required_floor_division", "model/src/network.rs",
  "            .max(service_trip.seated().div_ceil(vehicle_type.seats()))",
  "            .max(service_trip.seated() / vehicle_type.seats())", ["C07", "C17"]),
 ("c08_levels_swapped", "solver/src/objective.rs",
  "        unserved_passengers,\n        maintenance_violation,\n        vehicle_count,\n        costs,",
  "        unserved_passengers,\n        vehicle_count,\n        maintenance_violation,\n        costs,", ["C08"]),
 ("c08_iteration_limit_one", "solver/src/local_search/mod.rs",
  "        Some(function_between_steps),\n        None,\n        None,\n    )",
  "        Some(function_between_steps),\n        None,\n        Some(1),\n    )", ["C08"]),
 ("c09_remove_useful_duration", "solution/src/tour/modifications.rs",
  "        let new_useful_duration = self.useful_duration\n            - (pos_seg_start..pos_seg_end + 1)",
  "        let new_useful_duration = self.useful_duration\n            - (pos_seg_start..pos_seg_end)", ["C09", "C12"]),
 ("c09_visits_maintenance_rule", "solution/src/tour/modifications.rs",
  "                .any(|n| self.network.node(*n).is_maintenance())\n                || tour_nodes\n                    .iter()\n                    .any(|n| self.network.node(*n).is_maintenance()));",
  "                .any(|n| self.network.node(*n).is_maintenance()));", ["C09", "C12"]),
 ("c10_delete_dummy_keeps_id", "solution/src/schedule/modifications.rs",
  "        dummy_ids_sorted.remove(dummy_ids_sorted.binary_search(&dummy).unwrap());\n\n        Ok(Schedule::new(",
  "        let _ = dummy_ids_sorted.binary_search(&dummy).unwrap();\n\n        Ok(Schedule::new(", ["C10", "C13"]),
 ("c10_receiver_type_check_removed", "solution/src/schedule/modifications.rs",
  "                if path.iter().any(|n| {\n                    !self\n                        .network\n                        .compatible_with_vehicle_type(n, vehicle_type_of_receiver)\n                }) {\n                    return false;\n                }",
  "", ["C10", "C13"]),
 ("c12_earliest_arrival_strict", "solution/src/tour.rs",
  "            if self.network.node(self.nodes[mid - 1]).end_time() >= time {",
  "            if self.network.node(self.nodes[mid - 1]).end_time() > time {", ["C12", "C13"]),
 ("c12_removable_bound", "solution/src/tour.rs",
  "        if !self.is_dummy && start_position == 0 && end_position <= self.nodes.len() - 3 {",
  "        if !self.is_dummy && start_position == 0 && end_position <= self.nodes.len() - 4 {", ["C12", "C13", "C10"]),
 ("c13_replace_loses_position", "solution/src/train_formation.rs",
  "        new_formation.push(new);\n        new_formation.swap_remove(pos);",
  "        new_formation.remove(pos);\n        new_formation.push(new);", ["C13"]),
 ("c13_no_dummy_for_displaced", "solution/src/schedule/modifications.rs",
  "                new_dummy_opt = Some(new_dummy);\n                vehicle_counter += 1;\n\n                self.add_dummy_tour(\n                    &mut dummy_tours,\n                    &mut dummy_ids_sorted,\n                    new_dummy,\n                    new_dummy_tour,\n                );",
  "                vehicle_counter += 1;\n                let _ = (new_dummy, new_dummy_tour);", ["C13"]),
 ("c14_idle_cost_dropped", "solver/src/min_cost_flow_solver.rs",
  "                    * self.config.costs.dead_head_trip as Cost\n                    + idle_time_cost;",
  "                    * self.config.costs.dead_head_trip as Cost;\n                let _ = idle_time_cost;", ["C14"]),
 ("c14_spawning_cost_small", "solver/src/min_cost_flow_solver.rs",
  "            .checked_mul(total_lower_bound)\n            .unwrap();",
  "            .checked_mul(total_lower_bound)\n            .unwrap()\n            / 100000;", ["C14"]),
 ("c15_three_opt_wrong_arc", "solution/src/transition/transition_cycle.rs",
  "            .dead_head_distance_between(end_depot_k, start_depot_i_plus_1)",
  "            .dead_head_distance_between(end_depot_k, start_depot_j_plus_1)", ["C15", "C04"]),
 ("c15_remove_keeps_lookup", "solution/src/transition/modifications.rs",
  "        cycle_lookup.remove(&vehicle);\n", "", ["C15"]),
 ("c16_final_from_start", "server/src/lib.rs",
  "    let final_schedule =\n        schedule_with_optimized_transitions.reassign_end_depots_consistent_with_transitions();",
  "    let final_schedule = start_schedule_with_info\n        .get_schedule()\n        .reassign_end_depots_consistent_with_transitions();", ["C16"]),
 ("c16_optimiser_result_replaced", "server/src/lib.rs",
  "        optimized_transitions.insert(vehicle_type, improved_transition);",
  "        let _ = improved_transition;\n        optimized_transitions.insert(\n            vehicle_type,\n            schedule.next_day_transition_of(vehicle_type).clone(),\n        );", ["C16"]),
 ("c17_predecessors_tie", "model/src/network.rs",
  "            .range(..=(self.node(node).start_time(), NodeIdx::largest()))",
  "            .range(..(self.node(node).start_time(), NodeIdx::smallest()))", ["C17", "C14"]),
 ("c17_zero_passengers_kept", "model/src/json_serialisation/mod.rs",
  "            if passengers == 0 {\n                passengers = 1;",
  "            if passengers == 0 {\n                passengers = 0;", ["C17", "C07"]),
 ("c17_capacity_unclamped", "model/src/network/depot.rs",
  "            Some(Some(capacity)) => VehicleCount::min(*capacity, self.total_capacity),",
  "            Some(Some(capacity)) => *capacity,", ["C17"]),
 ("c18_health_string", "server/src/main.rs",
  "    \"Healthy\"\n}", "    \"OK\"\n}", ["C18"]),
 ("c18_stale_answer_on_panic", "server/src/main.rs",
  "    let output = server::solve_instance(input_data);\n    axum::response::Json(output)",
  "    let output = std::panic::catch_unwind(|| server::solve_instance(input_data))\n        .unwrap_or_else(|_| serde_json::json!({\"schedule\": {}}));\n    axum::response::Json(output)", ["C18"]),
]

def sh(cmd, **kw):
    return subprocess.run(cmd, shell=True, capture_output=True, text=True, **kw)

def main():
    want = set(sys.argv[1:])
    out_path = os.environ.get("KILL_RESULTS_PATH", "/verif/notes/kill_results.json")
    results = {}
    if os.path.exists(out_path):
        results = json.load(open(out_path))
    if sh("git -C /repo diff --quiet").returncode != 0:
        print("/repo dirty"); sys.exit(2)
    for name, file, old, new, checks in M:
        if want and name not in want:
            continue
        path = os.path.join(REPO, file)
        src = open(path).read()
        if src.count(old) != 1:
            print(name, "PATTERN NOT UNIQUE/FOUND", src.count(old)); results[name] = {"error": "pattern"}; continue
        open(path, "w").write(src.replace(old, new))
        try:
            t = sh("cd /repo && cargo test --workspace --offline 2>&1 | grep -E 'test result|error(\\[|:)' | grep -vc ' 0 failed' ")
            tests_ok = t.stdout.strip() == "0"
            verdicts = {}
            for c in checks:
                t0 = time.time()
                r = sh("cd /verif && ./check %s" % c)
                lines = [l for l in r.stdout.splitlines() if l.startswith("VIOLATION") or l.startswith("INCONCLUSIVE") or l.startswith("BUILD")]
                first_msg = ""
                sl = r.stdout.splitlines()
                for i, l in enumerate(sl):
                    if l.startswith("VIOLATION") and i + 1 < len(sl):
                        first_msg = sl[i + 1].strip()[:220]; break
                verdicts[c] = {"exit": r.returncode, "violations": len([l for l in lines if l.startswith("VIOLATION")]), "first": first_msg, "secs": round(time.time() - t0, 1)}
            results[name] = {"file": file, "tests_pass": tests_ok, "checks": verdicts}
            caught = [c for c, v in verdicts.items() if v["exit"] == 1]
            print(name, "tests_pass=%s" % tests_ok, "caught_by=%s" % caught, {c: v["exit"] for c, v in verdicts.items()}, flush=True)
        finally:
            open(path, "w").write(src)
        json.dump(results, open(out_path, "w"), indent=1)
    sh("git -C /repo checkout -- .")

main()
