#!/bin/bash
# long_fuzz.sh <target> <ID> <seconds> <jobs> : a long libFuzzer campaign (background soak, not a check).
# Crashes are converted to replay files under replay/<ID>/ and replayed with the ordinary path.
set -u
cd "$(dirname "$0")/.."
export VERIF_ROOT="$(pwd)"; H="$VERIF_ROOT/harness"; F="$H/fuzz"
T="$1"; ID="$2"; SECS="$3"; JOBS="$4"
( cd "$H" && cargo build --offline --profile checked >/dev/null 2>&1 && cargo build --offline --profile release >/dev/null 2>&1 )
export RSV_BIN_CHECKED="$H/target/checked/rsv" RSV_BIN_RELEASE="$H/target/release/rsv"
( cd "$F" && cargo +nightly fuzz build "$T" >/dev/null 2>&1 ) || { echo "fuzz build failed"; exit 2; }
CORPUS="$F/corpus/long_$T"; ART="$F/artifacts/long_$T/"; LOGS="$F/logs.long_$T"
mkdir -p "$CORPUS" "$ART" "$LOGS"
"$RSV_BIN_CHECKED" gen-corpus "$ID" "$CORPUS" 64 7 >/dev/null 2>&1
( cd "$LOGS" && "$F/target/x86_64-unknown-linux-gnu/release/$T" "$CORPUS" -artifact_prefix="$ART" -max_total_time="$SECS" -jobs="$JOBS" -workers="$JOBS" -seed=11 -max_len=4096 -len_control=0 -timeout=120 -rss_limit_mb=6144 >"$LOGS/main.log" 2>&1 )
echo "executions: $(grep -h '^Done' "$LOGS"/fuzz-*.log | awk '{s+=$2} END {print s+0}')  max cov: $(grep -h 'DONE' "$LOGS"/fuzz-*.log | sed -n 's/.*cov: \([0-9]*\).*/\1/p' | sort -n | tail -1)"
for a in "$ART"crash-* "$ART"timeout-* "$ART"oom-*; do
  [ -f "$a" ] || continue
  echo "artifact: $a"
  grep -h "FUZZ-VIOLATION" "$LOGS"/fuzz-*.log | sort | uniq -c | head -5
  mkdir -p "$VERIF_ROOT/replay/$ID"
  R="$VERIF_ROOT/replay/$ID/${ID}_longfuzz_$(basename "$a").json"
  "$RSV_BIN_CHECKED" fuzz-artifact "$ID" "$a" "$R" >/dev/null
  "$RSV_BIN_CHECKED" replay "$ID" "$R" | tail -3
done
